#!/usr/bin/env python3
"""usage: tools/import_mutants.py <root> <origin text>
Copies confirmed seeded changes <root>/Cnn/out/mK (patch.diff, demo.patch, meta.json) with their
confirmation record <root>/confirm/Cnn-mK.txt into /verif/seeded/Cnn-mK/."""
import json, os, re, shutil, sys, glob
root, origin = sys.argv[1], sys.argv[2]
here = os.path.dirname(os.path.dirname(os.path.abspath(__file__)))
for d in sorted(glob.glob(f"{root}/C*/out/m*")):
    prop, m = d.split("/")[-3], d.split("/")[-1]
    ident = f"{prop}-{m}"
    conf = open(f"{root}/confirm/{ident}.txt").read()
    g = re.search(r"base=(\S+) suite=\[(.*?)\] with_mutation=\[(.*?)\] without_mutation=\[(.*?)\]", conf)
    assert g, ident
    assert " 0 failed" in g.group(2) and "FAILED" in g.group(3) and "FAILED" not in g.group(4) and "ok." in g.group(4), ident
    src = json.load(open(f"{d}/meta.json"))
    out = f"{here}/seeded/{ident}"
    os.makedirs(out, exist_ok=True)
    shutil.copy(f"{d}/patch.diff", out)
    shutil.copy(f"{d}/demo.patch", out)
    meta = {
        "property": prop,
        "breaks": src.get("summary") or src.get("breaks"),
        "needs_to_manifest": src.get("needs") or src.get("needs_to_manifest"),
        "files": src.get("files"),
        "demonstration": {"file": "demo.patch", "cmd": src["demo_cmd"]},
        "origin": origin,
        "base_commit": g.group(1),
        "confirmed": {
            "how": "scratch worktree of /repo at base_commit (tools/confirm_mutants.sh): (1) patch.diff only -> cargo test --offline, whole suite; (2) patch.diff + demo.patch -> demo_cmd; (3) demo.patch only -> demo_cmd",
            "suite_with_mutation": g.group(2).strip(),
            "demo_with_mutation": g.group(3).strip(),
            "demo_without_mutation": g.group(4).strip(),
        },
    }
    json.dump(meta, open(f"{out}/meta.json", "w"), indent=1)
    print("imported", ident)
