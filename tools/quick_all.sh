#!/bin/bash
# usage: tools/quick_all.sh [seed...] — every quick check at the given seeds (default 1); prints one line per check
seeds=${@:-1}
for s in $seeds; do
  for c in C01 C02 C03 C04 C05 C06 C07 C08 C09 C10 C11 C12 C13 C14 C15 C16 C17 C18 C19 C20; do
    out=$(VERIF_SEED=$s ./check $c quick 2>&1); rc=$?
    echo "seed=$s $c rc=$rc $(echo "$out" | grep -E 'evaluations=' | tail -1 | sed 's/.*evaluations=/evals=/')"
    echo "$out" | grep -E "VIOLATION|INCONCLUSIVE|KNOWN" | head -3
  done
done
