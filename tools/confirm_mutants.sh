#!/bin/bash
# Confirms every delivered mutation in a scratch worktree: (1) patch only -> whole suite passes,
# (2) patch + demo -> demo fails, (3) demo only -> demo passes. Results: /tmp/mut/confirm/<id>-<m>.txt
set -u
ROOT=${1:-/tmp/mut}
WT=$ROOT/confirm-wt
OUT=$ROOT/confirm
mkdir -p $OUT
export CARGO_NET_OFFLINE=true
export CARGO_TARGET_DIR=$ROOT/confirm-target
for d in $ROOT/C*/out/m*; do
  id=$(echo $d | sed "s|$ROOT/\(C[0-9]*\)/out/\(m[0-9]*\)|\1-\2|")
  [ -f $OUT/$id.txt ] && continue
  [ -f $d/patch.diff ] && [ -f $d/demo.patch ] && [ -f $d/meta.json ] || continue
  base=$(git -C /repo rev-parse HEAD)
  rm -rf $WT; git -C /repo worktree prune; git -C /repo worktree add -q --detach $WT $base || continue
  cmd=$(python3 -c "import json;print(json.load(open('$d/meta.json'))['demo_cmd'])")
  res="id=$id base=$base"
  ( cd $WT && git apply $d/patch.diff ) || { echo "$res patch_applies=no" > $OUT/$id.txt; continue; }
  for try in 1 2 3; do
    suite=$(cd $WT && cargo test --offline 2>&1 | grep -E "^test result" | head -1)
    echo "$suite" | grep -q " 0 failed" && break
  done
  res="$res suite=[${suite}]"
  ( cd $WT && git apply $d/demo.patch ) || { echo "$res demo_applies=no" > $OUT/$id.txt; continue; }
  with=$(cd $WT && eval "$cmd" 2>&1 | grep -E "^test result" | tr '\n' ' ')
  ( cd $WT && git checkout -q -- . && git clean -fdq -e out && git apply $d/demo.patch )
  without=$(cd $WT && eval "$cmd" 2>&1 | grep -E "^test result" | tr '\n' ' ')
  echo "$res with_mutation=[${with}] without_mutation=[${without}] demo_cmd=[$cmd]" > $OUT/$id.txt
done
rm -rf $WT; git -C /repo worktree prune
echo ALLDONE > $OUT/DONE
