#!/bin/bash
for c in C01 C02 C03 C04 C05 C06 C07 C08 C09 C10 C11 C12 C13 C14 C15 C16 C17 C18 C19 C20; do
  s=$(date +%s); ./check $c thorough > out_$c.txt 2>&1; rc=$?; e=$(date +%s)
  echo "$c rc=$rc secs=$((e-s)) $(grep -E 'evaluations=' out_$c.txt | tail -1)"; grep -E "VIOLATION|INCONCLUSIVE|NOTE" out_$c.txt | head -5
done
