#!/bin/sh
# usage: tools/shard.sh <PROP> [extra dv5mon args]  — run one shard and summarise its report
prop=$1; shift
/verif/target/release/dv5mon $prop "$@" | python3 -c "
import json,sys
r=json.load(sys.stdin)
print('evals',r['evaluations'],'fps',len(r['fingerprints']))
print(json.dumps(r['counters'],indent=0)[:4000])
print('inconclusive',r['inconclusive'][:3])
print('violations',r['violation_counts'])
for v in r['violations'][:6]: print(v['signature'], '|', v['what']); print('   ',json.dumps(v['replay'])[:900])
"
