#!/usr/bin/env python3
"""Regenerates MANIFEST.json from checks_meta.json (one entry per claimed property)."""
import json, os, subprocess
ROOT = os.path.dirname(os.path.dirname(os.path.abspath(__file__)))
meta = json.load(open(os.path.join(ROOT, "checks_meta.json")))
props = [json.loads(l) for l in open(os.path.join(ROOT, "properties.jsonl"))]
na_reasons = {}
try:
    na_reasons = json.load(open(os.path.join(ROOT, "not_applicable.json")))
except FileNotFoundError:
    pass
commits = subprocess.run(["git", "-C", "/repo", "log", "--format=%H %s"], capture_output=True, text=True).stdout.splitlines()
hook_commits = [c.split()[0] for c in commits if "verif-hooks" in c]
checks, na = [], []
for p in props:
    pid = p["id"]
    if pid in meta:
        m = meta[pid]
        checks.append({
            "property_id": pid,
            "quick_cmd": f"./check {pid} quick",
            "thorough_cmd": f"./check {pid} thorough",
            "evidence_file": f"/verif/evidence/{pid}.json",
            "replay_cmd_template": f"./check {pid} --replay {{path}}",
            "engine": "dv5mon",
            "level_claimed": {"category": m["level"], "text": m["level_text"], "design_ref": m.get("design_ref", f"DESIGN.md section 4, {pid}")},
            "level_note": m["level_note"],
            "technique": m["technique"],
        })
    else:
        na.append({"property_id": pid, "reason": na_reasons.get(pid, "check not built yet (work in progress in this round); not claimed")})
manifest = {
    "version": 1,
    "setup_cmd": "./check build",
    "hooks": {
        "guard": "verif-hooks",
        "enable": "cargo feature: the harness crate depends on discv5 = { path = \"/repo\", features = [\"verif-hooks\", \"libp2p\"] } (libp2p is the crate's own optional feature, not a hook)",
        "baseline_off_cmd": "cd /repo && cargo test --workspace --no-fail-fast --offline",
        "source_commits": hook_commits,
        "add_only": True,
    },
    "engines": [{
        "name": "dv5mon", "path": "/verif/harness",
        "serves_properties": sorted(meta.keys()),
        "kind_free_text": "Rust harness linking the real discv5 crate (feature verif-hooks): runtime monitors, reference-model and differential oracles, ledgers over virtual-wire / scripted-handler executions; driven and sharded by ./check (python3).",
    }],
    "checks": checks,
    "notes": "Runtime monitoring only: every verdict is 'held / violated on the executions produced'. Exit 0 held, 1 violation (VIOLATION line), 2 inconclusive. known_findings.json lists fixed/known defects.",
    "not_applicable": na,
}
json.dump(manifest, open(os.path.join(ROOT, "MANIFEST.json"), "w"), indent=1)
print(f"{len(checks)} checks, {len(na)} not claimed")
