#!/bin/sh
# usage: tools/try_mutant.sh <patch.diff> <PROP> [tier]   — apply a seeded change to /repo, run the check, undo
patch=$1; prop=$2; tier=${3:-quick}
cd /repo || exit 2
if ! git diff --quiet; then echo "/repo working tree not clean"; exit 2; fi
git apply "$patch" || { echo "patch does not apply"; exit 2; }
cd /verif && VERIF_EVIDENCE_DIR=/verif/target/scratch-evidence ./check $prop $tier | tail -${TAILN:-6}
rc=$?
git -C /repo checkout -- .
git -C /repo status --short
