#!/bin/bash
# usage: tools/dev_mutant.sh <patch.diff> <PROP> [shards] — try a seeded change against the private dev worktree
# (/tmp/devrepo, see DESIGN 9.5) without touching /repo: apply, build the dev binary, run a few shards, undo.
set -u
patch=$1; prop=$2; n=${3:-6}
git -C /tmp/devrepo diff --quiet || { echo "/tmp/devrepo dirty"; exit 2; }
git -C /tmp/devrepo apply "$patch" || exit 2
( cd ${HARNESS_DIR:-/verif/harness} && CARGO_TARGET_DIR=/verif/target/dev cargo build --release --offline --config 'paths=["/tmp/devrepo"]' 2>&1 | grep -E "^error" -A8 | head -20 )
rm -f /tmp/devm*.json
for sh in $(seq 0 $((n-1))); do /verif/target/dev/release/dv5mon $prop --tier quick --seed ${VERIF_SEED:-1} --shard $sh --nshards 16 --out /tmp/devm$sh.json & done; wait
git -C /tmp/devrepo checkout -- .
python3 - $n <<'PY'
import json,sys
tot={}
for sh in range(int(sys.argv[1])):
    try: r=json.load(open(f'/tmp/devm{sh}.json'))
    except Exception as e: print('shard',sh,'no report',e); continue
    for k,v in r['violation_counts'].items(): tot[k]=tot.get(k,0)+v
print('violations:',tot)
PY
( cd ${HARNESS_DIR:-/verif/harness} && CARGO_TARGET_DIR=/verif/target/dev cargo build --release --offline --config 'paths=["/tmp/devrepo"]' 2>&1 | grep -E "^error" | head -3 )
