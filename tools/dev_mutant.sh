#!/bin/bash
# usage: tools/dev_mutant.sh <patch.diff> <PROP> [shards] — try a seeded change against a private dev worktree
# (DEVREPO, default /tmp/devrepo; see DESIGN 9.5) without touching /repo: apply, build the dev binary
# (DEVTARGET, default /verif/target/dev; harness sources HARNESS_DIR), run a few shards, undo.
set -u
patch=$1; prop=$2; n=${3:-6}
R=${DEVREPO:-/tmp/devrepo}; export DV5_CRATE_ROOT=$R; T=${DEVTARGET:-/verif/target/dev}; H=${HARNESS_DIR:-/verif/harness}; O=${DEVOUT:-/tmp/devm}
git -C $R diff --quiet || { echo "$R dirty"; exit 2; }
git -C $R apply "$patch" || exit 2
( cd $H && CARGO_TARGET_DIR=$T cargo build --release --offline --config "paths=[\"$R\"]" 2>&1 | grep -E "^error" -A8 | head -20 )
rm -f $O*.json
for sh in $(seq 0 $((n-1))); do $T/release/dv5mon $prop --tier quick --seed ${VERIF_SEED:-1} --shard $sh --nshards 16 --out $O$sh.json & done; wait
git -C $R checkout -- .
python3 - $n $O <<'PY'
import json,sys
tot={}
for sh in range(int(sys.argv[1])):
    try: r=json.load(open(f'{sys.argv[2]}{sh}.json'))
    except Exception as e: print('shard',sh,'no report',e); continue
    for k,v in r['violation_counts'].items(): tot[k]=tot.get(k,0)+v
print('violations:',tot)
PY
( cd $H && CARGO_TARGET_DIR=$T cargo build --release --offline --config "paths=[\"$R\"]" 2>&1 | grep -E "^error" | head -3 )
