#!/bin/sh
# usage: tools/try_revert.sh <commit> <PROP> [tier] — run a check with one /repo commit reverse-applied, then undo
c=$1; prop=$2; tier=${3:-quick}
cd /repo || exit 2
if ! git diff --quiet; then echo "/repo working tree not clean"; exit 2; fi
git show $c | git apply -R || { echo "cannot reverse-apply"; exit 2; }
cd /verif && VERIF_EVIDENCE_DIR=/verif/target/scratch-evidence ./check $prop $tier | tail -${TAILN:-6}
git -C /repo checkout -- .
git -C /repo status --short
