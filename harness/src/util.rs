//! Shared plumbing: deterministic RNG, shard report, violation records.

use serde_json::{json, Map, Value};
use std::collections::{BTreeMap, BTreeSet};
use std::hash::{Hash, Hasher};

/// xoshiro256** seeded through splitmix64. Every harness decision comes from here, so a
/// scenario is a pure function of its seed (the crate's own `rand` calls are not controlled).
#[derive(Clone, Debug)]
pub struct Rng {
    s: [u64; 4],
}

fn splitmix(x: &mut u64) -> u64 {
    *x = x.wrapping_add(0x9E3779B97F4A7C15);
    let mut z = *x;
    z = (z ^ (z >> 30)).wrapping_mul(0xBF58476D1CE4E5B9);
    z = (z ^ (z >> 27)).wrapping_mul(0x94D049BB133111EB);
    z ^ (z >> 31)
}

impl Rng {
    pub fn new(seed: u64) -> Self {
        let mut x = seed ^ 0xD1B54A32D192ED03;
        let s = [
            splitmix(&mut x),
            splitmix(&mut x),
            splitmix(&mut x),
            splitmix(&mut x),
        ];
        Rng { s }
    }

    /// Derive an independent stream.
    pub fn fork(&mut self, tag: u64) -> Rng {
        Rng::new(self.next_u64() ^ tag.wrapping_mul(0xA24BAED4963EE407))
    }

    pub fn next_u64(&mut self) -> u64 {
        let result = self.s[1].wrapping_mul(5).rotate_left(7).wrapping_mul(9);
        let t = self.s[1] << 17;
        self.s[2] ^= self.s[0];
        self.s[3] ^= self.s[1];
        self.s[1] ^= self.s[2];
        self.s[0] ^= self.s[3];
        self.s[2] ^= t;
        self.s[3] = self.s[3].rotate_left(45);
        result
    }

    /// Uniform in `0..n` (n > 0).
    pub fn below(&mut self, n: u64) -> u64 {
        debug_assert!(n > 0);
        // multiply-shift; bias is irrelevant here
        ((self.next_u64() as u128 * n as u128) >> 64) as u64
    }

    pub fn usize(&mut self, n: usize) -> usize {
        self.below(n as u64) as usize
    }

    /// Uniform in `lo..=hi`.
    pub fn range(&mut self, lo: u64, hi: u64) -> u64 {
        lo + self.below(hi - lo + 1)
    }

    /// True with probability `num/den`.
    pub fn chance(&mut self, num: u64, den: u64) -> bool {
        self.below(den) < num
    }

    pub fn bool(&mut self) -> bool {
        self.next_u64() & 1 == 1
    }

    pub fn bytes(&mut self, n: usize) -> Vec<u8> {
        let mut v = Vec::with_capacity(n);
        while v.len() < n {
            let x = self.next_u64().to_le_bytes();
            let take = (n - v.len()).min(8);
            v.extend_from_slice(&x[..take]);
        }
        v
    }

    pub fn array<const N: usize>(&mut self) -> [u8; N] {
        let mut a = [0u8; N];
        let b = self.bytes(N);
        a.copy_from_slice(&b);
        a
    }

    pub fn pick<'a, T>(&mut self, xs: &'a [T]) -> &'a T {
        &xs[self.usize(xs.len())]
    }

    pub fn shuffle<T>(&mut self, xs: &mut [T]) {
        for i in (1..xs.len()).rev() {
            let j = self.usize(i + 1);
            xs.swap(i, j);
        }
    }
}

pub fn hash64<T: Hash>(t: &T) -> u64 {
    let mut h = std::collections::hash_map::DefaultHasher::new();
    t.hash(&mut h);
    h.finish()
}

pub fn mix_seed(seed: u64, a: u64, b: u64) -> u64 {
    let mut x = seed ^ a.wrapping_mul(0x9E3779B97F4A7C15) ^ b.wrapping_mul(0xC2B2AE3D27D4EB4F);
    splitmix(&mut x)
}

/// One violation of a property, with the witness needed to understand and replay it.
#[derive(Clone, Debug)]
pub struct Violation {
    /// Stable class of the witness, e.g. `C08:closest-duplicate`. Known findings are keyed on it.
    pub signature: String,
    /// Human readable one-liner.
    pub what: String,
    /// Everything needed to replay: scenario seed, op list, ledger.
    pub replay: Value,
}

/// What one shard of one check observed.
#[derive(Debug, Default)]
pub struct Report {
    pub property: String,
    /// Scenarios / cases executed.
    pub evaluations: u64,
    /// Coverage fingerprints of scenarios that reached the property's critical event.
    pub fingerprints: BTreeSet<u64>,
    /// Event-class counters.
    pub counters: BTreeMap<String, u64>,
    /// A few complete cases.
    pub samples: Vec<Value>,
    pub violations: Vec<Violation>,
    /// Reasons this shard could not decide something (never a violation).
    pub inconclusive: Vec<String>,
    /// Free-form extra coverage facts (maxima, exhaustive sub-spaces…).
    pub extra: Map<String, Value>,
    max_samples: usize,
    max_violations: usize,
}

impl Report {
    pub fn new(property: &str) -> Self {
        Report {
            property: property.to_string(),
            max_samples: 4,
            max_violations: 8,
            ..Default::default()
        }
    }

    pub fn count(&mut self, key: &str) {
        *self.counters.entry(key.to_string()).or_insert(0) += 1;
    }

    pub fn count_n(&mut self, key: &str, n: u64) {
        *self.counters.entry(key.to_string()).or_insert(0) += n;
    }

    pub fn max(&mut self, key: &str, v: u64) {
        let e = self.counters.entry(format!("max:{key}")).or_insert(0);
        if v > *e {
            *e = v;
        }
    }

    pub fn get(&self, key: &str) -> u64 {
        self.counters.get(key).copied().unwrap_or(0)
    }

    pub fn fingerprint<T: Hash>(&mut self, t: &T) {
        self.fingerprints.insert(hash64(t));
    }

    pub fn sample(&mut self, v: Value) {
        if self.samples.len() < self.max_samples {
            self.samples.push(v);
        }
    }

    pub fn want_sample(&self) -> bool {
        self.samples.len() < self.max_samples
    }

    pub fn violation(&mut self, signature: &str, what: String, replay: Value) {
        self.count(&format!("violation:{signature}"));
        // keep the first few witnesses per signature
        let same = self
            .violations
            .iter()
            .filter(|v| v.signature == signature)
            .count();
        if same < 2 && self.violations.len() < self.max_violations {
            self.violations.push(Violation {
                signature: signature.to_string(),
                what,
                replay,
            });
        }
    }

    pub fn inconclusive(&mut self, why: String) {
        self.count("inconclusive");
        if self.inconclusive.len() < 8 {
            self.inconclusive.push(why);
        }
    }

    pub fn to_json(&self) -> Value {
        json!({
            "property": self.property,
            "evaluations": self.evaluations,
            "fingerprints": self.fingerprints.iter().map(|f| format!("{f:016x}")).collect::<Vec<_>>(),
            "counters": self.counters,
            "samples": self.samples,
            "violations": self.violations.iter().map(|v| json!({
                "signature": v.signature, "what": v.what, "replay": v.replay,
            })).collect::<Vec<_>>(),
            "violation_counts": self.counters.iter()
                .filter(|(k, _)| k.starts_with("violation:"))
                .map(|(k, v)| (k["violation:".len()..].to_string(), json!(v)))
                .collect::<Map<String, Value>>(),
            "inconclusive": self.inconclusive,
            "extra": self.extra,
        })
    }
}

pub fn hx(b: &[u8]) -> String {
    hex::encode(b)
}

/// Parameters every property entry point receives.
#[derive(Clone, Debug)]
pub struct Params {
    pub tier: Tier,
    pub seed: u64,
    pub shard: u64,
    pub nshards: u64,
    /// Scale factor from the driver (1.0 = nominal for the tier).
    pub scale: f64,
    /// Replay of a single scenario seed, if any.
    pub replay: Option<Value>,
}

#[derive(Clone, Copy, Debug, PartialEq, Eq)]
pub enum Tier {
    Quick,
    Thorough,
}

impl Params {
    /// Number of scenarios for this shard given tier totals.
    pub fn budget(&self, quick_total: u64, thorough_total: u64) -> u64 {
        let total = match self.tier {
            Tier::Quick => quick_total,
            Tier::Thorough => thorough_total,
        };
        let total = ((total as f64) * self.scale).ceil() as u64;
        let base = total / self.nshards;
        let extra = if self.shard < total % self.nshards { 1 } else { 0 };
        (base + extra).max(1)
    }

    pub fn shard_seed(&self, tag: u64) -> u64 {
        mix_seed(self.seed, self.shard.wrapping_add(1), tag)
    }

    pub fn is_quick(&self) -> bool {
        self.tier == Tier::Quick
    }
}

thread_local! {
    static IN_PROBE: std::cell::Cell<bool> = const { std::cell::Cell::new(false) };
}

thread_local! {
    static LAST_PANIC: std::cell::RefCell<Option<(String, String)>> = const { std::cell::RefCell::new(None) };
}

/// Installs a panic hook that stays silent while a `probe` is running (panics of the code under
/// test are verdict material, not noise), remembers where the last panic happened, and prints
/// everything else (harness bugs).
///
/// "Inside the crate" = a source location under /repo/ (or, for the experiment tools that build
/// against a scratch worktree of /repo, under the directory named by DV5_CRATE_ROOT).
pub fn under_test(loc: &str) -> bool {
    if loc.starts_with("/repo/") {
        return true;
    }
    match std::env::var("DV5_CRATE_ROOT") {
        Ok(root) if !root.is_empty() => loc.starts_with(&format!("{}/", root.trim_end_matches('/'))),
        _ => false,
    }
}

pub fn quiet_panics_inside_probes() {
    static ONCE: std::sync::Once = std::sync::Once::new();
    ONCE.call_once(|| {
        let default = std::panic::take_hook();
        std::panic::set_hook(Box::new(move |info| {
            let loc = info.location().map(|l| format!("{}:{}", l.file(), l.line())).unwrap_or_default();
            let msg = if let Some(s) = info.payload().downcast_ref::<&str>() {
                s.to_string()
            } else if let Some(s) = info.payload().downcast_ref::<String>() {
                s.clone()
            } else {
                "panic".to_string()
            };
            LAST_PANIC.with(|p| *p.borrow_mut() = Some((loc.clone(), msg)));
            let in_crate = under_test(&loc) || loc.starts_with("src/") && !loc.contains("props/") && !loc.contains("rig/") && !loc.contains("peer/");
            if !IN_PROBE.with(|p| p.get()) && !under_test(&loc) {
                let _ = in_crate;
                default(info);
            }
        }));
    });
}

/// Runs one scenario. A panic raised *inside the crate under test* (source location under
/// /repo/) becomes a violation `<property>:panic-in-crate`; any other panic is a harness bug and
/// is propagated (the shard dies, the check is inconclusive).
pub fn guarded(rep: &mut Report, seed: u64, f: impl FnOnce(&mut Report)) {
    quiet_panics_inside_probes();
    LAST_PANIC.with(|p| *p.borrow_mut() = None);
    let r = std::panic::catch_unwind(std::panic::AssertUnwindSafe(|| f(rep)));
    if let Err(payload) = r {
        let last = LAST_PANIC.with(|p| p.borrow().clone());
        match last {
            Some((loc, msg)) if under_test(&loc) => {
                let prop = rep.property.clone();
                rep.evaluations += 1;
                rep.violation(
                    &format!("{prop}:panic-in-crate"),
                    format!("the code under test panicked at {loc}: {msg}"),
                    serde_json::json!({"scenario_seed": seed.to_string(), "location": loc, "message": msg}),
                );
            }
            _ => std::panic::resume_unwind(payload),
        }
    }
}

/// Runs `f`, converting a panic into `Err(())`.
pub fn probe<T>(f: impl FnOnce() -> T) -> Result<T, ()> {
    IN_PROBE.with(|p| p.set(true));
    let r = std::panic::catch_unwind(std::panic::AssertUnwindSafe(f));
    IN_PROBE.with(|p| p.set(false));
    r.map_err(|_| ())
}


/// Base58 (bitcoin alphabet), as used for libp2p peer ids.
pub fn base58(data: &[u8]) -> String {
    const ALPHABET: &[u8] = b"123456789ABCDEFGHJKLMNPQRSTUVWXYZabcdefghijkmnopqrstuvwxyz";
    let zeros = data.iter().take_while(|b| **b == 0).count();
    let mut digits: Vec<u8> = Vec::new();
    for &byte in data {
        let mut carry = byte as u32;
        for d in digits.iter_mut() {
            carry += (*d as u32) << 8;
            *d = (carry % 58) as u8;
            carry /= 58;
        }
        while carry > 0 {
            digits.push((carry % 58) as u8);
            carry /= 58;
        }
    }
    let mut out = String::new();
    for _ in 0..zeros {
        out.push('1');
    }
    for d in digits.iter().rev() {
        out.push(ALPHABET[*d as usize] as char);
    }
    out
}

/// The multiaddr a user would type for a node known only by key and socket: ip, udp port and the
/// libp2p peer id of a secp256k1 key (identity multihash of the protobuf-encoded public key).
pub fn multiaddr_of(compressed_pubkey: &[u8], addr: &std::net::SocketAddr) -> String {
    assert_eq!(compressed_pubkey.len(), 33);
    let mut pb = vec![0x08u8, 0x02, 0x12, 0x21];
    pb.extend_from_slice(compressed_pubkey);
    let mut mh = vec![0x00u8, pb.len() as u8];
    mh.extend_from_slice(&pb);
    let ip = match addr.ip() {
        std::net::IpAddr::V4(a) => format!("/ip4/{a}"),
        std::net::IpAddr::V6(a) => format!("/ip6/{a}"),
    };
    format!("{ip}/udp/{}/p2p/{}", addr.port(), base58(&mh))
}


/// A tracing subscriber that is interested in everything and formats every field of every event
/// into a scratch buffer: the crate's logging statements (their argument expressions and their
/// Debug/Display implementations) run as they would under a subscriber at TRACE level. Installed
/// process-wide in every second shard, so that each workload is seen with logging on and off.
pub struct TraceSink;

struct SinkVisitor<'a>(&'a mut String);

impl tracing::field::Visit for SinkVisitor<'_> {
    fn record_debug(&mut self, field: &tracing::field::Field, value: &dyn std::fmt::Debug) {
        use std::fmt::Write;
        self.0.clear();
        let _ = write!(self.0, "{}={:?}", field.name(), value);
    }
}

impl tracing::Subscriber for TraceSink {
    fn enabled(&self, _: &tracing::Metadata<'_>) -> bool {
        true
    }
    fn new_span(&self, attrs: &tracing::span::Attributes<'_>) -> tracing::span::Id {
        let mut buf = String::new();
        attrs.record(&mut SinkVisitor(&mut buf));
        tracing::span::Id::from_u64(1)
    }
    fn record(&self, _: &tracing::span::Id, values: &tracing::span::Record<'_>) {
        let mut buf = String::new();
        values.record(&mut SinkVisitor(&mut buf));
    }
    fn record_follows_from(&self, _: &tracing::span::Id, _: &tracing::span::Id) {}
    fn event(&self, event: &tracing::Event<'_>) {
        let mut buf = String::new();
        if std::env::var("DV5_LOG_PRINT").is_ok() {
            // debugging aid for replays: print the crate's log lines
            struct All<'a>(&'a mut String);
            impl tracing::field::Visit for All<'_> {
                fn record_debug(&mut self, field: &tracing::field::Field, value: &dyn std::fmt::Debug) {
                    use std::fmt::Write;
                    let _ = write!(self.0, " {}={:?}", field.name(), value);
                }
            }
            event.record(&mut All(&mut buf));
            eprintln!("LOG {} {}:{}", event.metadata().level(), event.metadata().target(), buf);
            return;
        }
        event.record(&mut SinkVisitor(&mut buf));
    }
    fn enter(&self, _: &tracing::span::Id) {}
    fn exit(&self, _: &tracing::span::Id) {}
}

pub fn install_trace_sink() {
    let _ = tracing::subscriber::set_global_default(TraceSink);
}
