mod peer;
mod props;
mod rig;
mod util;

use serde_json::Value;
use util::{Params, Report, Tier};

fn usage() -> ! {
    eprintln!("usage: dv5mon <C01..C20|smoke> [--tier quick|thorough] [--seed N] [--shard I] [--nshards N] [--scale F] [--out FILE] [--replay FILE]");
    std::process::exit(2)
}

fn main() {
    let args: Vec<String> = std::env::args().collect();
    if args.len() < 2 {
        usage();
    }
    let prop = args[1].clone();
    let mut p = Params {
        tier: Tier::Quick,
        seed: 1,
        shard: 0,
        nshards: 1,
        scale: 1.0,
        replay: None,
    };
    let mut out: Option<String> = None;
    let mut i = 2;
    while i < args.len() {
        let val = |i: usize| -> String { args.get(i + 1).cloned().unwrap_or_else(|| usage()) };
        match args[i].as_str() {
            "--tier" => {
                p.tier = match val(i).as_str() {
                    "quick" => Tier::Quick,
                    "thorough" => Tier::Thorough,
                    _ => usage(),
                }
            }
            "--seed" => p.seed = val(i).parse().unwrap_or_else(|_| usage()),
            "--shard" => p.shard = val(i).parse().unwrap_or_else(|_| usage()),
            "--nshards" => p.nshards = val(i).parse().unwrap_or_else(|_| usage()),
            "--scale" => p.scale = val(i).parse().unwrap_or_else(|_| usage()),
            "--out" => out = Some(val(i)),
            "--replay" => {
                let text = std::fs::read_to_string(val(i)).expect("replay file readable");
                p.replay = Some(serde_json::from_str::<Value>(&text).expect("replay file is json"));
            }
            _ => usage(),
        }
        i += 2;
    }
    // Every second shard (and a replay when DV5_LOGGING is set) runs with the crate's logging
    // statements switched on: their arguments are evaluated and formatted into a sink.
    let logging = match std::env::var("DV5_LOGGING") {
        Ok(v) => v != "0",
        Err(_) => (p.replay.is_some() || p.shard % 2 == 1) && !prop.starts_with("miri"),
    };
    if logging {
        util::install_trace_sink();
    }
    // Panics inside monitors/harness must not look like a verdict: report them as harness errors.
    let report: Report = match prop.as_str() {
        "smoke" => props::smoke::run(&p),
        "maxrec" => {
            props::smoke::max_record();
            return;
        }
        "rawrec" => {
            props::smoke::raw_rec();
            return;
        }
        "c12dbg" => {
            props::c12::debug_trace(1);
            return;
        }
        "miri-codec" => {
            props::miri::codec(p.seed);
            return;
        }
        "miri-table" => {
            props::miri::table(p.seed);
            return;
        }
        "miri-cache" => {
            props::miri::cache(p.seed);
            return;
        }
        "poolsizes" => {
            props::smoke::pool_sizes();
            return;
        }
        _ => match props::dispatch(&prop, &p) {
            Some(r) => r,
            None => usage(),
        },
    };
    let text = serde_json::to_string(&report.to_json()).unwrap();
    match out {
        Some(f) => std::fs::write(f, text).expect("write report"),
        None => println!("{text}"),
    }
}
