//! Handshake cryptography of discv5.1 composed from the wire specification on top of the
//! primitives (`k256`, `hkdf`, `sha2`, `aes-gcm`). No code shared with `discv5::handler::crypto`.

use aes_gcm::{
    aead::{Aead, KeyInit, Payload},
    Aes128Gcm, Nonce,
};
use discv5::enr::k256::{
    self,
    ecdsa::{
        signature::{DigestSigner, DigestVerifier},
        Signature, SigningKey, VerifyingKey,
    },
    elliptic_curve::sec1::ToEncodedPoint,
    sha2::{Digest, Sha256},
};
use hkdf::Hkdf;

pub const KDF_INFO_TEXT: &[u8] = b"discovery v5 key agreement";
pub const ID_SIGNATURE_TEXT: &[u8] = b"discovery v5 identity proof";

/// ecdh(pubkey, privkey): the shared point in compressed form (33 bytes).
pub fn ecdh(public: &VerifyingKey, secret: &SigningKey) -> Vec<u8> {
    let point = k256::PublicKey::from(public).to_projective();
    let scalar = *secret.as_nonzero_scalar();
    let shared = (point * *scalar).to_affine();
    shared.to_encoded_point(true).as_bytes().to_vec()
}

/// (initiator-key, recipient-key) = HKDF(secret, challenge-data, "discovery v5 key agreement" || idA || idB)
/// where A is the node that sends the handshake packet and B the node that sent WHOAREYOU.
pub fn derive_keys(
    secret: &[u8],
    challenge_data: &[u8],
    id_a: &[u8; 32],
    id_b: &[u8; 32],
) -> ([u8; 16], [u8; 16]) {
    let mut info = KDF_INFO_TEXT.to_vec();
    info.extend_from_slice(id_a);
    info.extend_from_slice(id_b);
    let hk = Hkdf::<Sha256>::new(Some(challenge_data), secret);
    let mut okm = [0u8; 32];
    hk.expand(&info, &mut okm).expect("32 bytes is a valid length");
    let mut i = [0u8; 16];
    let mut r = [0u8; 16];
    i.copy_from_slice(&okm[..16]);
    r.copy_from_slice(&okm[16..]);
    (i, r)
}

pub fn id_signature_input(challenge_data: &[u8], eph_pubkey: &[u8], id_b: &[u8; 32]) -> Vec<u8> {
    let mut m = ID_SIGNATURE_TEXT.to_vec();
    m.extend_from_slice(challenge_data);
    m.extend_from_slice(eph_pubkey);
    m.extend_from_slice(id_b);
    m
}

/// id-signature = sign(sha256(input)), 64 bytes r || s.
pub fn id_sign(key: &SigningKey, input: &[u8]) -> Vec<u8> {
    let sig: Signature = key.sign_digest(Sha256::new().chain_update(input));
    sig.to_vec()
}

pub fn id_verify(key: &VerifyingKey, input: &[u8], sig: &[u8]) -> bool {
    match Signature::try_from(sig) {
        Ok(sig) => key
            .verify_digest(Sha256::new().chain_update(input), &sig)
            .is_ok(),
        Err(_) => false,
    }
}

pub fn gcm_encrypt(key: &[u8; 16], nonce: &[u8; 12], pt: &[u8], aad: &[u8]) -> Vec<u8> {
    let cipher = Aes128Gcm::new(key.into());
    cipher
        .encrypt(Nonce::from_slice(nonce), Payload { msg: pt, aad })
        .expect("gcm encryption of a short message")
}

pub fn gcm_decrypt(key: &[u8; 16], nonce: &[u8; 12], ct: &[u8], aad: &[u8]) -> Option<Vec<u8>> {
    if ct.len() < 16 {
        return None;
    }
    let cipher = Aes128Gcm::new(key.into());
    cipher
        .decrypt(Nonce::from_slice(nonce), Payload { msg: ct, aad })
        .ok()
}

pub fn compressed(key: &VerifyingKey) -> Vec<u8> {
    key.to_encoded_point(true).as_bytes().to_vec()
}

pub fn uncompressed(key: &VerifyingKey) -> Vec<u8> {
    key.to_encoded_point(false).as_bytes().to_vec()
}
