//! discv5.1 packet layout written from the wire specification. Shares no code with
//! `discv5::packet`. AES-128-CTR with the 16-byte masking IV as the initial (128-bit,
//! big-endian) counter block, keyed by the first 16 bytes of the destination node id.

use super::rlp_ref;
use aes::cipher::{KeyIvInit, StreamCipher};
use discv5::Enr;

type Aes128Ctr = ctr::Ctr128BE<aes::Aes128>;

pub const PROTOCOL_ID: [u8; 6] = *b"discv5";
pub const VERSION: [u8; 2] = [0, 1];
pub const MIN_PACKET: usize = 63;
pub const MAX_PACKET: usize = 1280;

pub const FLAG_MESSAGE: u8 = 0;
pub const FLAG_WHOAREYOU: u8 = 1;
pub const FLAG_HANDSHAKE: u8 = 2;

/// A packet in its raw fields (anything can be put in any field).
#[derive(Clone, Debug, PartialEq, Eq)]
pub struct RawPacket {
    pub iv: [u8; 16],
    pub protocol_id: [u8; 6],
    pub version: [u8; 2],
    pub flag: u8,
    pub nonce: [u8; 12],
    /// If `None`, the real length of `authdata` is written.
    pub authdata_size_override: Option<u16>,
    pub authdata: Vec<u8>,
    pub message: Vec<u8>,
}

impl RawPacket {
    pub fn new(iv: [u8; 16], flag: u8, nonce: [u8; 12], authdata: Vec<u8>, message: Vec<u8>) -> Self {
        RawPacket {
            iv,
            protocol_id: PROTOCOL_ID,
            version: VERSION,
            flag,
            nonce,
            authdata_size_override: None,
            authdata,
            message,
        }
    }

    /// static-header || authdata, unmasked.
    pub fn header(&self) -> Vec<u8> {
        let mut h = Vec::with_capacity(23 + self.authdata.len());
        h.extend_from_slice(&self.protocol_id);
        h.extend_from_slice(&self.version);
        h.push(self.flag);
        h.extend_from_slice(&self.nonce);
        let size = self
            .authdata_size_override
            .unwrap_or(self.authdata.len() as u16);
        h.extend_from_slice(&size.to_be_bytes());
        h.extend_from_slice(&self.authdata);
        h
    }

    /// masking-iv || header: the associated data of the message encryption.
    pub fn aad(&self) -> Vec<u8> {
        let mut a = self.iv.to_vec();
        a.extend_from_slice(&self.header());
        a
    }

    pub fn encode(&self, dst_id: &[u8; 32]) -> Vec<u8> {
        let mut header = self.header();
        mask(dst_id, &self.iv, &mut header);
        let mut out = Vec::with_capacity(16 + header.len() + self.message.len());
        out.extend_from_slice(&self.iv);
        out.extend_from_slice(&header);
        out.extend_from_slice(&self.message);
        out
    }
}

pub fn mask(dst_id: &[u8; 32], iv: &[u8; 16], data: &mut [u8]) {
    let mut cipher = Aes128Ctr::new(dst_id[..16].into(), iv.into());
    cipher.apply_keystream(data);
}

pub fn mask_key(key: &[u8; 16], iv: &[u8; 16], data: &mut [u8]) {
    let mut cipher = Aes128Ctr::new(key.into(), iv.into());
    cipher.apply_keystream(data);
}

#[derive(Clone, Debug, PartialEq, Eq)]
pub enum RefKind {
    Message {
        src_id: [u8; 32],
    },
    WhoAreYou {
        id_nonce: [u8; 16],
        enr_seq: u64,
    },
    Handshake {
        src_id: [u8; 32],
        id_signature: Vec<u8>,
        eph_pubkey: Vec<u8>,
        record: Option<Vec<u8>>,
    },
}

#[derive(Clone, Debug, PartialEq, Eq)]
pub struct RefDecoded {
    pub iv: [u8; 16],
    pub nonce: [u8; 12],
    pub kind: RefKind,
    pub message: Vec<u8>,
    /// masking-iv || unmasked static header || unmasked authdata
    pub aad: Vec<u8>,
}

#[derive(Clone, Debug, PartialEq, Eq)]
pub enum PacketReject {
    TooSmall,
    TooLarge,
    ProtocolId,
    Version,
    UnknownFlag,
    /// authdata-size larger than what is left in the datagram
    AuthSizeOverrun,
    /// authdata-size not the one the flag prescribes (32 / 24 / >= 34 + sig + key)
    AuthSizeForKind,
    WhoAreYouWithBody,
    /// the record inside a handshake is not a valid record occupying exactly the rest of authdata
    BadRecord,
}

impl PacketReject {
    /// Reasons the C05 statement names.
    pub fn named_by_statement(&self) -> bool {
        !matches!(self, PacketReject::BadRecord)
    }
}

/// Strict decoder with the accept/reject contract of the specification and of C05.
pub fn decode(local_id: &[u8; 32], data: &[u8]) -> Result<RefDecoded, PacketReject> {
    if data.len() > MAX_PACKET {
        return Err(PacketReject::TooLarge);
    }
    if data.len() < MIN_PACKET {
        return Err(PacketReject::TooSmall);
    }
    let mut iv = [0u8; 16];
    iv.copy_from_slice(&data[..16]);
    // Unmask everything after the IV once; only the header part of it is meaningful.
    let mut unmasked = data[16..].to_vec();
    mask(local_id, &iv, &mut unmasked);
    let sh = &unmasked[..23];
    if sh[..6] != PROTOCOL_ID {
        return Err(PacketReject::ProtocolId);
    }
    if sh[6..8] != VERSION {
        return Err(PacketReject::Version);
    }
    let flag = sh[8];
    let mut nonce = [0u8; 12];
    nonce.copy_from_slice(&sh[9..21]);
    let auth_size = u16::from_be_bytes([sh[21], sh[22]]) as usize;
    if auth_size > unmasked.len() - 23 {
        return Err(PacketReject::AuthSizeOverrun);
    }
    let authdata = &unmasked[23..23 + auth_size];
    let message = data[16 + 23 + auth_size..].to_vec();
    let kind = match flag {
        FLAG_MESSAGE => {
            if auth_size != 32 {
                return Err(PacketReject::AuthSizeForKind);
            }
            let mut src_id = [0u8; 32];
            src_id.copy_from_slice(authdata);
            RefKind::Message { src_id }
        }
        FLAG_WHOAREYOU => {
            if auth_size != 24 {
                return Err(PacketReject::AuthSizeForKind);
            }
            let mut id_nonce = [0u8; 16];
            id_nonce.copy_from_slice(&authdata[..16]);
            let enr_seq = u64::from_be_bytes(authdata[16..24].try_into().unwrap());
            RefKind::WhoAreYou { id_nonce, enr_seq }
        }
        FLAG_HANDSHAKE => {
            if auth_size < 34 {
                return Err(PacketReject::AuthSizeForKind);
            }
            let mut src_id = [0u8; 32];
            src_id.copy_from_slice(&authdata[..32]);
            let sig_size = authdata[32] as usize;
            let key_size = authdata[33] as usize;
            if auth_size < 34 + sig_size + key_size {
                return Err(PacketReject::AuthSizeForKind);
            }
            let id_signature = authdata[34..34 + sig_size].to_vec();
            let eph_pubkey = authdata[34 + sig_size..34 + sig_size + key_size].to_vec();
            let rest = &authdata[34 + sig_size + key_size..];
            let record = if rest.is_empty() {
                None
            } else {
                if rlp_ref::decode_record(rest).is_none() {
                    return Err(PacketReject::BadRecord);
                }
                Some(rest.to_vec())
            };
            RefKind::Handshake {
                src_id,
                id_signature,
                eph_pubkey,
                record,
            }
        }
        _ => return Err(PacketReject::UnknownFlag),
    };
    if matches!(kind, RefKind::WhoAreYou { .. }) && !message.is_empty() {
        return Err(PacketReject::WhoAreYouWithBody);
    }
    let mut aad = iv.to_vec();
    aad.extend_from_slice(&unmasked[..23 + auth_size]);
    Ok(RefDecoded {
        iv,
        nonce,
        kind,
        message,
        aad,
    })
}

/* ------------------------- authdata constructors ------------------------- */

pub fn authdata_message(src_id: &[u8; 32]) -> Vec<u8> {
    src_id.to_vec()
}

pub fn authdata_whoareyou(id_nonce: &[u8; 16], enr_seq: u64) -> Vec<u8> {
    let mut a = id_nonce.to_vec();
    a.extend_from_slice(&enr_seq.to_be_bytes());
    a
}

pub fn authdata_handshake(
    src_id: &[u8; 32],
    id_signature: &[u8],
    eph_pubkey: &[u8],
    record: Option<&[u8]>,
) -> Vec<u8> {
    let mut a = src_id.to_vec();
    a.push(id_signature.len() as u8);
    a.push(eph_pubkey.len() as u8);
    a.extend_from_slice(id_signature);
    a.extend_from_slice(eph_pubkey);
    if let Some(r) = record {
        a.extend_from_slice(r);
    }
    a
}

pub fn record_bytes(enr: &Enr) -> Vec<u8> {
    rlp_ref::encode_record(enr)
}
