//! A scriptable discv5 node built only from the spec-side codec and crypto. It can behave
//! honestly (both handshake roles, all message kinds) and can produce every malformed variant the
//! attacks need: any claimed source id, any signer, any signed data, any ephemeral key, any record.

use super::{
    codec_ref::{self, RawPacket, RefDecoded, RefKind, FLAG_HANDSHAKE, FLAG_MESSAGE, FLAG_WHOAREYOU},
    crypto_ref,
    rlp_ref::{self, RefMessage},
};
use crate::util::Rng;
use discv5::{
    enr::{
        k256::ecdsa::{SigningKey, VerifyingKey},
        CombinedKey, NodeId,
    },
    Enr,
};
use std::{
    collections::HashMap,
    net::{IpAddr, SocketAddr},
};

pub type Id = [u8; 32];

/// A key, a record and an address.
#[derive(Clone)]
pub struct Identity {
    pub sk: SigningKey,
    pub enr: Enr,
    pub id: Id,
    pub addr: SocketAddr,
}

pub fn signing_key(rng: &mut Rng) -> SigningKey {
    loop {
        let b: [u8; 32] = rng.array();
        if let Ok(k) = SigningKey::from_slice(&b) {
            return k;
        }
    }
}

pub fn combined(sk: &SigningKey) -> CombinedKey {
    CombinedKey::Secp256k1(sk.clone())
}

/// Which socket fields to put into a record.
#[derive(Clone, Copy, Debug, PartialEq, Eq)]
pub enum EnrAddr {
    None,
    /// Exactly this socket address in the matching (v4/v6) fields.
    Socket(SocketAddr),
    /// The IP address field alone, without a UDP port (a record that names an address one
    /// cannot send discovery packets to).
    IpOnly(IpAddr),
}

pub fn build_enr(sk: &SigningKey, seq: u64, addr: EnrAddr, pad_to: Option<usize>) -> Enr {
    build_enr2(sk, seq, addr, EnrAddr::None, pad_to)
}

pub fn build_enr2(sk: &SigningKey, seq: u64, a: EnrAddr, b: EnrAddr, pad_to: Option<usize>) -> Enr {
    let key = combined(sk);
    let make = |pad: Option<usize>| {
        let mut builder = Enr::builder();
        builder.seq(seq);
        for addr in [a, b] {
            if let EnrAddr::IpOnly(ip) = addr {
                match ip {
                    IpAddr::V4(ip) => {
                        builder.ip4(ip);
                    }
                    IpAddr::V6(ip) => {
                        builder.ip6(ip);
                    }
                }
            }
            if let EnrAddr::Socket(sa) = addr {
                match sa.ip() {
                    IpAddr::V4(ip) => {
                        builder.ip4(ip);
                        builder.udp4(sa.port());
                    }
                    IpAddr::V6(ip) => {
                        builder.ip6(ip);
                        builder.udp6(sa.port());
                    }
                }
            }
        }
        if let Some(n) = pad {
            builder.add_value("zpad", &vec![0xABu8; n].as_slice());
        }
        builder.build(&key)
    };
    match pad_to {
        None => make(None).expect("record within size limit"),
        Some(target) => {
            // Find the padding that makes the encoded record exactly `target` bytes (or the
            // closest size below that the rlp length steps allow).
            let mut pad = 1usize;
            let mut best = make(Some(pad)).expect("small record");
            for _ in 0..40 {
                let len = rlp_ref::encode_record(&best).len();
                if len >= target {
                    break;
                }
                let mut step = target - len;
                let mut advanced = false;
                while step >= 1 {
                    match make(Some(pad + step)) {
                        Ok(enr) if rlp_ref::encode_record(&enr).len() <= target => {
                            pad += step;
                            best = enr;
                            advanced = true;
                            break;
                        }
                        _ => step /= 2,
                    }
                }
                if !advanced {
                    break;
                }
            }
            best
        }
    }
}

impl Identity {
    pub fn new(rng: &mut Rng, addr: SocketAddr, enr_addr: EnrAddr, seq: u64) -> Self {
        let sk = signing_key(rng);
        let enr = build_enr(&sk, seq, enr_addr, None);
        let id = enr.node_id().raw();
        Identity { sk, enr, id, addr }
    }

    pub fn node_id(&self) -> NodeId {
        NodeId::new(&self.id)
    }

    pub fn public(&self) -> VerifyingKey {
        *self.sk.verifying_key()
    }

    pub fn record_bytes(&self) -> Vec<u8> {
        rlp_ref::encode_record(&self.enr)
    }

    /// Replace the record by a new one with the given seq / address.
    pub fn rebuild_enr(&mut self, seq: u64, enr_addr: EnrAddr) {
        self.enr = build_enr(&self.sk, seq, enr_addr, None);
    }
}

/// One generation of session keys between a peer and the victim.
#[derive(Clone, Debug, PartialEq, Eq)]
pub struct KeyGen {
    /// Key for messages peer -> victim.
    pub send: [u8; 16],
    /// Key for messages victim -> peer.
    pub recv: [u8; 16],
    /// True if the peer sent the handshake packet (victim sent WHOAREYOU).
    pub peer_initiated: bool,
}

/// A message packet (flag 0) from `src_id` for `dst`, encrypted under `key`.
pub fn message_packet(
    rng: &mut Rng,
    src_id: &Id,
    dst: &Id,
    key: &[u8; 16],
    plaintext: &[u8],
) -> (Vec<u8>, [u8; 12]) {
    let nonce: [u8; 12] = rng.array();
    message_packet_with(rng.array(), nonce, src_id, dst, key, plaintext)
}

pub fn message_packet_with(
    iv: [u8; 16],
    nonce: [u8; 12],
    src_id: &Id,
    dst: &Id,
    key: &[u8; 16],
    plaintext: &[u8],
) -> (Vec<u8>, [u8; 12]) {
    let mut p = RawPacket::new(iv, FLAG_MESSAGE, nonce, codec_ref::authdata_message(src_id), vec![]);
    p.message = crypto_ref::gcm_encrypt(key, &nonce, plaintext, &p.aad());
    (p.encode(dst), nonce)
}

/// A "random" packet: a message packet whose body is noise, as sent to start a handshake.
pub fn random_packet(rng: &mut Rng, src_id: &Id, dst: &Id) -> (Vec<u8>, [u8; 12]) {
    let nonce: [u8; 12] = rng.array();
    let p = RawPacket::new(
        rng.array(),
        FLAG_MESSAGE,
        nonce,
        codec_ref::authdata_message(src_id),
        rng.bytes(44),
    );
    (p.encode(dst), nonce)
}

/// A WHOAREYOU for `dst` echoing `request_nonce`. Returns the datagram and its challenge-data.
pub fn whoareyou_packet(
    rng: &mut Rng,
    dst: &Id,
    request_nonce: [u8; 12],
    enr_seq: u64,
) -> (Vec<u8>, Vec<u8>) {
    let id_nonce: [u8; 16] = rng.array();
    let p = RawPacket::new(
        rng.array(),
        FLAG_WHOAREYOU,
        request_nonce,
        codec_ref::authdata_whoareyou(&id_nonce, enr_seq),
        vec![],
    );
    (p.encode(dst), p.aad())
}

/// How the id-signature of a crafted handshake is produced.
#[derive(Clone)]
pub enum Signer {
    Key(SigningKey),
    /// Raw bytes put into the signature field.
    Raw(Vec<u8>),
}

#[derive(Clone, Copy, Debug, PartialEq, Eq, Hash)]
pub enum SignedData {
    Correct,
    /// Signature over another (random) challenge-data.
    OtherChallenge,
    /// Ephemeral key left out of the signed data.
    WithoutEphKey,
    /// Signed for another destination id.
    OtherDestination,
}

#[derive(Clone, Debug, PartialEq, Eq, Hash)]
pub enum EphKey {
    /// A fresh valid ephemeral key (compressed).
    Fresh,
    /// A fresh valid key in uncompressed form (65 bytes).
    FreshUncompressed,
    /// These exact bytes (garbage, wrong length, a static key …).
    Raw(Vec<u8>),
}

pub struct HandshakeSpec<'a> {
    /// Source id claimed in the authdata.
    pub claimed_id: Id,
    pub signer: Signer,
    pub signed: SignedData,
    pub eph: EphKey,
    /// Raw record bytes appended to the authdata.
    pub record: Option<Vec<u8>>,
    /// Destination (victim) id and static public key.
    pub dst: Id,
    pub dst_pub: &'a VerifyingKey,
    /// challenge-data of the WHOAREYOU being answered.
    pub challenge_data: &'a [u8],
    /// Message to encrypt inside the handshake packet.
    pub plaintext: &'a [u8],
}

pub struct HandshakeOut {
    pub datagram: Vec<u8>,
    pub nonce: [u8; 12],
    /// Keys the sender derives (None when the ephemeral key is unusable).
    pub keys: Option<KeyGen>,
}

/// Builds a handshake packet (flag 2) per `spec`, honest or not.
pub fn handshake_packet(rng: &mut Rng, spec: &HandshakeSpec) -> HandshakeOut {
    let eph_sk = signing_key(rng);
    let eph_bytes = match &spec.eph {
        EphKey::Fresh => crypto_ref::compressed(eph_sk.verifying_key()),
        EphKey::FreshUncompressed => crypto_ref::uncompressed(eph_sk.verifying_key()),
        EphKey::Raw(b) => b.clone(),
    };
    // Keys: derived with the fresh ephemeral secret whenever the bytes on the wire are that key.
    let keys = match &spec.eph {
        EphKey::Fresh | EphKey::FreshUncompressed => {
            let secret = crypto_ref::ecdh(spec.dst_pub, &eph_sk);
            let (ik, rk) =
                crypto_ref::derive_keys(&secret, spec.challenge_data, &spec.claimed_id, &spec.dst);
            Some(KeyGen {
                send: ik,
                recv: rk,
                peer_initiated: true,
            })
        }
        EphKey::Raw(_) => None,
    };
    let other_challenge = rng.bytes(63);
    let other_dst: Id = rng.array();
    let input = match spec.signed {
        SignedData::Correct => {
            crypto_ref::id_signature_input(spec.challenge_data, &eph_bytes, &spec.dst)
        }
        SignedData::OtherChallenge => {
            crypto_ref::id_signature_input(&other_challenge, &eph_bytes, &spec.dst)
        }
        SignedData::WithoutEphKey => {
            crypto_ref::id_signature_input(spec.challenge_data, &[], &spec.dst)
        }
        SignedData::OtherDestination => {
            crypto_ref::id_signature_input(spec.challenge_data, &eph_bytes, &other_dst)
        }
    };
    let sig = match &spec.signer {
        Signer::Key(k) => crypto_ref::id_sign(k, &input),
        Signer::Raw(b) => b.clone(),
    };
    let nonce: [u8; 12] = rng.array();
    let authdata = codec_ref::authdata_handshake(
        &spec.claimed_id,
        &sig,
        &eph_bytes,
        spec.record.as_deref(),
    );
    let mut p = RawPacket::new(rng.array(), FLAG_HANDSHAKE, nonce, authdata, vec![]);
    // Encrypt with the derived initiator key if there is one, else with noise.
    let key = keys.as_ref().map(|k| k.send).unwrap_or_else(|| rng.array());
    p.message = crypto_ref::gcm_encrypt(&key, &nonce, spec.plaintext, &p.aad());
    HandshakeOut {
        datagram: p.encode(&spec.dst),
        nonce,
        keys,
    }
}

/// The peer answers the victim's handshake packet: verifies the id signature with the victim's
/// static key, derives the keys and decrypts the embedded message.
pub fn accept_victim_handshake(
    me: &Identity,
    victim_id: &Id,
    victim_pub: &VerifyingKey,
    challenge_data: &[u8],
    dec: &RefDecoded,
) -> Result<(KeyGen, Vec<u8>), String> {
    let RefKind::Handshake {
        src_id,
        id_signature,
        eph_pubkey,
        ..
    } = &dec.kind
    else {
        return Err("not a handshake".into());
    };
    if src_id != victim_id {
        return Err("handshake from unexpected id".into());
    }
    let input = crypto_ref::id_signature_input(challenge_data, eph_pubkey, &me.id);
    if !crypto_ref::id_verify(victim_pub, &input, id_signature) {
        return Err("victim id-signature does not verify".into());
    }
    let eph = VerifyingKey::from_sec1_bytes(eph_pubkey).map_err(|_| "bad ephemeral key")?;
    let secret = crypto_ref::ecdh(&eph, &me.sk);
    let (ik, rk) = crypto_ref::derive_keys(&secret, challenge_data, victim_id, &me.id);
    let pt = crypto_ref::gcm_decrypt(&ik, &dec.nonce, &dec.message, &dec.aad)
        .ok_or("handshake message does not decrypt under derived key")?;
    Ok((
        KeyGen {
            send: rk,
            recv: ik,
            peer_initiated: false,
        },
        pt,
    ))
}

/// A scriptable peer: identity + every key generation it shares with each victim.
pub struct PeerSim {
    pub ident: Identity,
    pub keys: HashMap<Id, Vec<KeyGen>>,
    /// challenge-data of WHOAREYOUs this peer sent, by the request nonce they echo.
    pub sent_challenges: HashMap<[u8; 12], Vec<u8>>,
    pub rng: Rng,
}

impl PeerSim {
    pub fn new(rng: &mut Rng, addr: SocketAddr, enr_addr: EnrAddr, seq: u64) -> Self {
        let mut own = rng.fork(0x5EE2);
        PeerSim {
            ident: Identity::new(&mut own, addr, enr_addr, seq),
            keys: HashMap::new(),
            sent_challenges: HashMap::new(),
            rng: own,
        }
    }

    pub fn id(&self) -> Id {
        self.ident.id
    }

    pub fn addr(&self) -> SocketAddr {
        self.ident.addr
    }

    pub fn parse(&self, datagram: &[u8]) -> Result<RefDecoded, codec_ref::PacketReject> {
        codec_ref::decode(&self.ident.id, datagram)
    }

    pub fn latest(&self, victim: &Id) -> Option<&KeyGen> {
        self.keys.get(victim).and_then(|v| v.last())
    }

    pub fn add_keys(&mut self, victim: &Id, k: KeyGen) -> usize {
        let v = self.keys.entry(*victim).or_default();
        v.push(k);
        v.len() - 1
    }

    /// Tries every key generation shared with `victim`; returns (generation, plaintext).
    pub fn decrypt(&self, victim: &Id, dec: &RefDecoded) -> Option<(usize, Vec<u8>)> {
        let gens = self.keys.get(victim)?;
        for (i, k) in gens.iter().enumerate().rev() {
            if let Some(pt) = crypto_ref::gcm_decrypt(&k.recv, &dec.nonce, &dec.message, &dec.aad) {
                return Some((i, pt));
            }
        }
        None
    }

    pub fn random_packet(&mut self, victim: &Id) -> (Vec<u8>, [u8; 12]) {
        random_packet(&mut self.rng, &self.ident.id, victim)
    }

    /// Encrypts `msg` for the victim under key generation `gen` (default: latest).
    pub fn message(&mut self, victim: &Id, msg: &RefMessage, gen: Option<usize>) -> (Vec<u8>, [u8; 12]) {
        let gens = &self.keys[victim];
        let k = gens[gen.unwrap_or(gens.len() - 1)].send;
        message_packet(&mut self.rng, &self.ident.id, victim, &k, &msg.encode())
    }

    pub fn whoareyou(&mut self, victim: &Id, request_nonce: [u8; 12], enr_seq: u64) -> Vec<u8> {
        let (dgram, cd) = whoareyou_packet(&mut self.rng, victim, request_nonce, enr_seq);
        self.sent_challenges.insert(request_nonce, cd);
        dgram
    }

    /// Honest handshake answering the victim's WHOAREYOU (`challenge_data` = its aad).
    pub fn honest_handshake(
        &mut self,
        victim: &Id,
        victim_pub: &VerifyingKey,
        challenge_data: &[u8],
        with_record: bool,
        msg: &RefMessage,
    ) -> HandshakeOut {
        let spec = HandshakeSpec {
            claimed_id: self.ident.id,
            signer: Signer::Key(self.ident.sk.clone()),
            signed: SignedData::Correct,
            eph: EphKey::Fresh,
            record: with_record.then(|| self.ident.record_bytes()),
            dst: *victim,
            dst_pub: victim_pub,
            challenge_data,
            plaintext: &msg.encode(),
        };
        let out = handshake_packet(&mut self.rng, &spec);
        if let Some(k) = &out.keys {
            self.add_keys(victim, k.clone());
        }
        out
    }

    /// Processes the victim's handshake packet answering one of this peer's WHOAREYOUs.
    pub fn accept_handshake(
        &mut self,
        victim: &Id,
        victim_pub: &VerifyingKey,
        dec: &RefDecoded,
    ) -> Result<(usize, Vec<u8>), String> {
        // The victim's handshake packet does not echo the request nonce; try every challenge.
        let mut last_err = "no challenge outstanding".to_string();
        let candidates: Vec<([u8; 12], Vec<u8>)> = self
            .sent_challenges
            .iter()
            .map(|(k, v)| (*k, v.clone()))
            .collect();
        for (req_nonce, cd) in candidates {
            match accept_victim_handshake(&self.ident, victim, victim_pub, &cd, dec) {
                Ok((k, pt)) => {
                    self.sent_challenges.remove(&req_nonce);
                    let gen = self.add_keys(victim, k);
                    return Ok((gen, pt));
                }
                Err(e) => last_err = e,
            }
        }
        Err(last_err)
    }
}

pub fn nid(id: &Id) -> NodeId {
    NodeId::new(id)
}

/// A record built by hand from RLP (identity scheme "v4": the signature is over the keccak256 of
/// the content list). Unlike the `enr` builder, which stops at 295 bytes, this reaches the
/// 300-byte maximum a decoder accepts. `extra` is the length of a padding value under key "zpad".
pub fn raw_record(sk: &SigningKey, seq: u64, addr: Option<SocketAddr>, extra: usize) -> Vec<u8> {
    use discv5::enr::k256::ecdsa::{signature::hazmat::PrehashSigner, Signature};
    use sha3::{Digest, Keccak256};
    let mut content = Vec::new();
    rlp_ref::encode_uint(seq, &mut content);
    rlp_ref::encode_bytes(b"id", &mut content);
    rlp_ref::encode_bytes(b"v4", &mut content);
    if let Some(SocketAddr::V4(a)) = addr {
        rlp_ref::encode_bytes(b"ip", &mut content);
        rlp_ref::encode_bytes(&a.ip().octets(), &mut content);
    }
    rlp_ref::encode_bytes(b"secp256k1", &mut content);
    rlp_ref::encode_bytes(&crypto_ref_compressed(sk), &mut content);
    if let Some(SocketAddr::V4(a)) = addr {
        rlp_ref::encode_bytes(b"udp", &mut content);
        rlp_ref::encode_uint(a.port() as u64, &mut content);
    }
    rlp_ref::encode_bytes(b"zpad", &mut content);
    rlp_ref::encode_bytes(&vec![0xAB; extra], &mut content);
    let mut to_sign = Vec::new();
    rlp_ref::encode_list_payload(&content, &mut to_sign);
    let hash = Keccak256::digest(&to_sign);
    let sig: Signature = sk.sign_prehash(&hash).expect("sign");
    let mut payload = Vec::new();
    rlp_ref::encode_bytes(&sig.to_bytes(), &mut payload);
    payload.extend_from_slice(&content);
    let mut out = Vec::new();
    rlp_ref::encode_list_payload(&payload, &mut out);
    out
}

fn crypto_ref_compressed(sk: &SigningKey) -> Vec<u8> {
    super::crypto_ref::compressed(sk.verifying_key())
}

/// A valid record of exactly `target` encoded bytes (<= 300), or None if the sizes do not work out.
pub fn record_of_size(sk: &SigningKey, seq: u64, addr: Option<SocketAddr>, target: usize) -> Option<Enr> {
    for extra in 0..target {
        let raw = raw_record(sk, seq, addr, extra);
        if raw.len() == target {
            return rlp_ref::decode_record(&raw);
        }
        if raw.len() > target {
            return None;
        }
    }
    None
}
