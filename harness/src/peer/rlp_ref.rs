//! Strict canonical RLP, written from the Ethereum yellow paper, plus the discv5 message schema.
//! Shares no code with `discv5::rpc`. Records are validated by the `enr` crate on their exact
//! sub-slice (both sides trust that crate's judgement of a record).

use discv5::Enr;
use std::net::IpAddr;

#[derive(Clone, Debug, PartialEq, Eq)]
pub enum Item {
    Bytes(Vec<u8>),
    List(Vec<Item>),
}

/// Why the strict reference rejects an input. The classification matters: the C06 oracle only
/// alarms for reasons the property statement names.
#[derive(Clone, Debug, PartialEq, Eq)]
pub enum Reject {
    /// Input ended before the announced length / missing bytes at some nesting level.
    Truncated,
    /// Bytes left over after the announced structure at some nesting level.
    Trailing,
    /// Non-canonical RLP (leading zero in a length, long form for a short item, single byte
    /// wrapped in a string header).
    NonCanonical,
    /// Element has the wrong RLP kind (string where list expected or vice versa).
    WrongKind,
    /// Wrong number of elements in the message list.
    Arity,
    /// Integer with leading zero or wider than the field.
    BadInteger,
    /// Request id longer than 8 bytes.
    IdTooLong,
    /// FINDNODE distance above 256.
    DistanceTooLarge,
    /// PONG port zero.
    PortZero,
    /// PONG ip neither 4 nor 16 bytes.
    BadIpLength,
    /// A record that is not a valid signed record.
    BadRecord,
    /// Unknown message type byte.
    UnknownType,
    /// Fewer than the minimal number of bytes.
    TooShort,
}

impl Reject {
    /// Is this a reason the C06 statement lists explicitly ("trailing or missing bytes, request
    /// ids longer than 8 bytes, distances above 256, a zero port, IP fields that are neither 4 nor
    /// 16 bytes and records that are not valid signed records")?
    pub fn named_by_statement(&self) -> bool {
        matches!(
            self,
            Reject::Truncated
                | Reject::Trailing
                | Reject::IdTooLong
                | Reject::DistanceTooLarge
                | Reject::PortZero
                | Reject::BadIpLength
                | Reject::BadRecord
                | Reject::TooShort
        )
    }
}

/* ------------------------------- encoding ------------------------------- */

fn encode_length(len: usize, offset: u8, out: &mut Vec<u8>) {
    if len <= 55 {
        out.push(offset + len as u8);
    } else {
        let be = (len as u64).to_be_bytes();
        let skip = be.iter().take_while(|b| **b == 0).count();
        out.push(offset + 55 + (8 - skip) as u8);
        out.extend_from_slice(&be[skip..]);
    }
}

pub fn encode_bytes(b: &[u8], out: &mut Vec<u8>) {
    if b.len() == 1 && b[0] < 0x80 {
        out.push(b[0]);
    } else {
        encode_length(b.len(), 0x80, out);
        out.extend_from_slice(b);
    }
}

pub fn encode_uint(x: u64, out: &mut Vec<u8>) {
    let be = x.to_be_bytes();
    let skip = be.iter().take_while(|b| **b == 0).count();
    encode_bytes(&be[skip..], out);
}

pub fn encode_list_payload(payload: &[u8], out: &mut Vec<u8>) {
    encode_length(payload.len(), 0xc0, out);
    out.extend_from_slice(payload);
}

pub fn encode_item(item: &Item, out: &mut Vec<u8>) {
    match item {
        Item::Bytes(b) => encode_bytes(b, out),
        Item::List(items) => {
            let mut payload = Vec::new();
            for i in items {
                encode_item(i, &mut payload);
            }
            encode_list_payload(&payload, out);
        }
    }
}

/* ------------------------------- decoding ------------------------------- */

/// Header of one item: (is_list, header_len, payload_len).
fn parse_header(data: &[u8]) -> Result<(bool, usize, usize), Reject> {
    let Some(&b0) = data.first() else {
        return Err(Reject::Truncated);
    };
    let long = |offset: u8, is_list: bool| -> Result<(bool, usize, usize), Reject> {
        let len_of_len = (b0 - offset - 55) as usize;
        if data.len() < 1 + len_of_len {
            return Err(Reject::Truncated);
        }
        let len_bytes = &data[1..1 + len_of_len];
        if len_bytes[0] == 0 {
            return Err(Reject::NonCanonical);
        }
        if len_of_len > 8 {
            return Err(Reject::Truncated);
        }
        let mut len: u64 = 0;
        for b in len_bytes {
            len = (len << 8) | *b as u64;
        }
        if len <= 55 {
            return Err(Reject::NonCanonical);
        }
        if len > (usize::MAX / 2) as u64 {
            return Err(Reject::Truncated);
        }
        Ok((is_list, 1 + len_of_len, len as usize))
    };
    match b0 {
        0x00..=0x7f => Ok((false, 0, 1)),
        0x80..=0xb7 => Ok((false, 1, (b0 - 0x80) as usize)),
        0xb8..=0xbf => long(0x80, false),
        0xc0..=0xf7 => Ok((true, 1, (b0 - 0xc0) as usize)),
        0xf8..=0xff => long(0xc0, true),
    }
}

/// Parses exactly one item from the front of `data`; returns the item and the bytes consumed.
pub fn parse_item(data: &[u8]) -> Result<(Item, usize), Reject> {
    let (is_list, hlen, plen) = parse_header(data)?;
    if data.len() < hlen + plen {
        return Err(Reject::Truncated);
    }
    let payload = &data[hlen..hlen + plen];
    if is_list {
        let mut items = Vec::new();
        let mut rest = payload;
        while !rest.is_empty() {
            // An inner item that overruns its enclosing list is a size inconsistency.
            let (item, used) = parse_item(rest)?;
            items.push(item);
            rest = &rest[used..];
        }
        Ok((Item::List(items), hlen + plen))
    } else {
        if hlen == 1 && plen == 1 && payload[0] < 0x80 {
            return Err(Reject::NonCanonical);
        }
        Ok((Item::Bytes(payload.to_vec()), hlen + plen))
    }
}

/// Spans (start, end) of the direct children of the list at the front of `data`.
pub fn list_child_spans(data: &[u8]) -> Result<Vec<(usize, usize)>, Reject> {
    let (is_list, hlen, plen) = parse_header(data)?;
    if !is_list {
        return Err(Reject::WrongKind);
    }
    if data.len() < hlen + plen {
        return Err(Reject::Truncated);
    }
    let mut spans = Vec::new();
    let mut pos = hlen;
    let end = hlen + plen;
    while pos < end {
        let (_, h, p) = parse_header(&data[pos..end])?;
        if pos + h + p > end {
            return Err(Reject::Truncated);
        }
        spans.push((pos, pos + h + p));
        pos += h + p;
    }
    Ok(spans)
}

fn as_bytes(item: &Item) -> Result<&[u8], Reject> {
    match item {
        Item::Bytes(b) => Ok(b),
        Item::List(_) => Err(Reject::WrongKind),
    }
}

fn as_uint(item: &Item, max_bytes: usize) -> Result<u64, Reject> {
    let b = as_bytes(item)?;
    if b.len() > max_bytes || (!b.is_empty() && b[0] == 0) {
        return Err(Reject::BadInteger);
    }
    let mut x: u64 = 0;
    for v in b {
        x = (x << 8) | *v as u64;
    }
    Ok(x)
}

/* --------------------------- message schema --------------------------- */

#[derive(Clone, Debug, PartialEq, Eq)]
pub enum RefMessage {
    Ping { id: Vec<u8>, enr_seq: u64 },
    Pong { id: Vec<u8>, enr_seq: u64, ip: Vec<u8>, port: u16 },
    FindNode { id: Vec<u8>, distances: Vec<u64> },
    Nodes { id: Vec<u8>, total: u64, records: Vec<Vec<u8>> },
    TalkReq { id: Vec<u8>, protocol: Vec<u8>, request: Vec<u8> },
    TalkResp { id: Vec<u8>, response: Vec<u8> },
}

impl RefMessage {
    pub fn id(&self) -> &[u8] {
        match self {
            RefMessage::Ping { id, .. }
            | RefMessage::Pong { id, .. }
            | RefMessage::FindNode { id, .. }
            | RefMessage::Nodes { id, .. }
            | RefMessage::TalkReq { id, .. }
            | RefMessage::TalkResp { id, .. } => id,
        }
    }

    pub fn type_byte(&self) -> u8 {
        match self {
            RefMessage::Ping { .. } => 1,
            RefMessage::Pong { .. } => 2,
            RefMessage::FindNode { .. } => 3,
            RefMessage::Nodes { .. } => 4,
            RefMessage::TalkReq { .. } => 5,
            RefMessage::TalkResp { .. } => 6,
        }
    }

    pub fn is_request(&self) -> bool {
        matches!(
            self,
            RefMessage::Ping { .. } | RefMessage::FindNode { .. } | RefMessage::TalkReq { .. }
        )
    }

    /// `message-type || rlp(list)` as in the wire specification.
    pub fn encode(&self) -> Vec<u8> {
        let mut payload = Vec::new();
        match self {
            RefMessage::Ping { id, enr_seq } => {
                encode_bytes(id, &mut payload);
                encode_uint(*enr_seq, &mut payload);
            }
            RefMessage::Pong { id, enr_seq, ip, port } => {
                encode_bytes(id, &mut payload);
                encode_uint(*enr_seq, &mut payload);
                encode_bytes(ip, &mut payload);
                encode_uint(*port as u64, &mut payload);
            }
            RefMessage::FindNode { id, distances } => {
                encode_bytes(id, &mut payload);
                let mut inner = Vec::new();
                for d in distances {
                    encode_uint(*d, &mut inner);
                }
                encode_list_payload(&inner, &mut payload);
            }
            RefMessage::Nodes { id, total, records } => {
                encode_bytes(id, &mut payload);
                encode_uint(*total, &mut payload);
                let mut inner = Vec::new();
                for r in records {
                    inner.extend_from_slice(r);
                }
                encode_list_payload(&inner, &mut payload);
            }
            RefMessage::TalkReq { id, protocol, request } => {
                encode_bytes(id, &mut payload);
                encode_bytes(protocol, &mut payload);
                encode_bytes(request, &mut payload);
            }
            RefMessage::TalkResp { id, response } => {
                encode_bytes(id, &mut payload);
                encode_bytes(response, &mut payload);
            }
        }
        let mut out = vec![self.type_byte()];
        encode_list_payload(&payload, &mut out);
        out
    }

    /// Strict decoder.
    pub fn decode(data: &[u8]) -> Result<RefMessage, Reject> {
        if data.len() < 2 {
            return Err(Reject::TooShort);
        }
        let msg_type = data[0];
        let body = &data[1..];
        let (item, used) = parse_item(body)?;
        if used != body.len() {
            return Err(Reject::Trailing);
        }
        let Item::List(items) = item else {
            return Err(Reject::WrongKind);
        };
        if !(1..=6).contains(&msg_type) {
            return Err(Reject::UnknownType);
        }
        let arity = match msg_type {
            1 => 2,
            2 => 4,
            3 => 2,
            4 => 3,
            5 => 3,
            6 => 2,
            _ => unreachable!(),
        };
        if items.len() != arity {
            // Too few elements = missing bytes, too many = trailing bytes inside the list.
            return Err(if items.len() < arity {
                Reject::Truncated
            } else {
                Reject::Trailing
            });
        }
        let id = as_bytes(&items[0])?.to_vec();
        if id.len() > 8 {
            return Err(Reject::IdTooLong);
        }
        Ok(match msg_type {
            1 => RefMessage::Ping {
                id,
                enr_seq: as_uint(&items[1], 8)?,
            },
            2 => {
                let enr_seq = as_uint(&items[1], 8)?;
                let ip = as_bytes(&items[2])?.to_vec();
                if ip.len() != 4 && ip.len() != 16 {
                    return Err(Reject::BadIpLength);
                }
                let port = as_uint(&items[3], 2)?;
                if port == 0 {
                    return Err(Reject::PortZero);
                }
                RefMessage::Pong {
                    id,
                    enr_seq,
                    ip,
                    port: port as u16,
                }
            }
            3 => {
                let Item::List(ds) = &items[1] else {
                    return Err(Reject::WrongKind);
                };
                let mut distances = Vec::new();
                for d in ds {
                    let d = as_uint(d, 8)?;
                    if d > 256 {
                        return Err(Reject::DistanceTooLarge);
                    }
                    distances.push(d);
                }
                RefMessage::FindNode { id, distances }
            }
            4 => {
                let total = as_uint(&items[1], 8)?;
                let Item::List(recs) = &items[2] else {
                    return Err(Reject::WrongKind);
                };
                let mut records = Vec::new();
                for r in recs {
                    if !matches!(r, Item::List(_)) {
                        return Err(Reject::BadRecord);
                    }
                    let mut raw = Vec::new();
                    encode_item(r, &mut raw);
                    if decode_record(&raw).is_none() {
                        return Err(Reject::BadRecord);
                    }
                    records.push(raw);
                }
                RefMessage::Nodes { id, total, records }
            }
            5 => RefMessage::TalkReq {
                id,
                protocol: as_bytes(&items[1])?.to_vec(),
                request: as_bytes(&items[2])?.to_vec(),
            },
            6 => RefMessage::TalkResp {
                id,
                response: as_bytes(&items[1])?.to_vec(),
            },
            _ => unreachable!(),
        })
    }
}

/// A record is valid iff the `enr` crate accepts exactly these bytes.
pub fn decode_record(raw: &[u8]) -> Option<Enr> {
    use alloy_rlp::Decodable;
    let mut slice = raw;
    match Enr::decode(&mut slice) {
        Ok(enr) if slice.is_empty() => Some(enr),
        _ => None,
    }
}

pub fn encode_record(enr: &Enr) -> Vec<u8> {
    alloy_rlp::encode(enr)
}

pub fn ip_bytes(ip: &IpAddr) -> Vec<u8> {
    match ip {
        IpAddr::V4(a) => a.octets().to_vec(),
        IpAddr::V6(a) => a.octets().to_vec(),
    }
}
