pub mod codec_ref;
pub mod crypto_ref;
pub mod peersim;
pub mod rlp_ref;
