//! C09 / C10, R2 half — `find_node` / `find_node_predicate` on a real service whose scripted
//! handler answers, fails, stays silent until a (scripted) handler timeout, or answers late.
//!
//! Checks per lookup: no FINDNODE goes twice to one node id; the number of requests in flight
//! (no outcome yet, younger than the peer timeout) stays within parallelism (16 once a stall is
//! possible); bounded termination: after every request has received its outcome, a real sleep of
//! query_timeout + peer_timeout + 50 ms and one further service wake-up, the callback has fired;
//! the result is at most 16 distinct records in increasing distance, each of which answered the
//! lookup's request (and satisfies the predicate), and if fewer than 16 are returned without a
//! timeout cut-off every candidate the lookup learned of was asked (or could not be contacted).

use super::kb::{self, Id};
use crate::peer::peersim::{build_enr, signing_key, EnrAddr};
use crate::rig::r1::v4;
use crate::rig::r2::{runtime, Mode, ServiceCfg, ServiceRig};
use crate::util::{hx, Report, Rng};
use discv5::enr::NodeId;
use discv5::verif::{ConnectionDirection, HandlerIn, HandlerOut, RequestBody, Response, ResponseBody};
use discv5::socket::UnrecognizedFrame;
use discv5::{Enr, NodeAddress, RequestError, RequestId};
use serde_json::{json, Value};
use std::collections::{HashMap, HashSet};
use std::time::{Duration, Instant};

const QUERY_TIMEOUT: Duration = Duration::from_millis(250);
const PEER_TIMEOUT: Duration = Duration::from_millis(20);

pub struct Universe {
    pub enrs: Vec<Enr>,
}

pub fn universe(rng: &mut Rng, n: usize) -> Universe {
    Universe {
        enrs: (0..n)
            .map(|i| {
                let sk = signing_key(rng);
                let a = v4(10, 60 + (i / 200) as u8, 0, 1 + (i % 200) as u8, 9000);
                // a custom key marks the records that satisfy the predicate
                if i % 3 == 0 {
                    let key = crate::peer::peersim::combined(&sk);
                    let mut b = Enr::builder();
                    b.seq(1);
                    b.ip4(match a.ip() {
                        std::net::IpAddr::V4(ip) => ip,
                        _ => unreachable!(),
                    });
                    b.udp4(a.port());
                    b.add_value("match", &1u8);
                    b.build(&key).unwrap()
                } else {
                    build_enr(&sk, 1, EnrAddr::Socket(a), None)
                }
            })
            .collect(),
    }
}

fn matches(e: &Enr) -> bool {
    e.get_raw_rlp("match").is_some()
}

struct Asked {
    at: Instant,
    rid: RequestId,
    na: NodeAddress,
    distances: Vec<u64>,
    outcome: Option<bool>, // Some(true) = answered (completing), Some(false) = failed
    partial: bool,
}

pub fn scenario(seed: u64, uni: &Universe, rep: &mut Report, prefix: &str) {
    let rt = runtime(seed);
    rt.block_on(async {
        let mut rng = Rng::new(seed ^ 0xC09);
        let parallelism = match rng.below(8) {
            0 => 0,
            1 => 1,
            _ => 1 + rng.usize(5),
        };
        let predicate = rng.chance(1, 3);
        let mut rig = ServiceRig::start(&mut rng, ServiceCfg { mode: Mode::Ip4, local_enr_has_addr: true, tweak: Box::new(move |b| {
            b.query_parallelism(parallelism);
            b.query_timeout(QUERY_TIMEOUT);
            b.query_peer_timeout(PEER_TIMEOUT);
            b.disable_enr_update();
        }) }).await;
        // the lookup starts from nodes in the table
        let mut order: Vec<usize> = (0..uni.enrs.len()).collect();
        rng.shuffle(&mut order);
        let nknown = 1 + rng.usize(8);
        let known: Vec<&Enr> = order[..nknown].iter().map(|i| &uni.enrs[*i]).collect();
        for e in &known {
            rig.emit(HandlerOut::Established((*e).clone(), std::net::SocketAddr::V4(e.udp4_socket().unwrap()), ConnectionDirection::Incoming)).await;
        }
        rig.settle().await;
        rig.take_handler_in();
        rig.take_events();
        let table: HashSet<Id> = rig.discv5.table_entries_id().into_iter().map(|i| i.raw()).collect();
        let target: Id = rng.array();
        let k_results = if predicate { 1 + rng.usize(16) } else { 16 };
        let handle = if predicate {
            tokio::spawn(rig.discv5.find_node_predicate(NodeId::new(&target), Box::new(matches), k_results))
        } else {
            tokio::spawn(rig.discv5.find_node(NodeId::new(&target)))
        };
        let by_id: HashMap<Id, &Enr> = uni.enrs.iter().map(|e| (e.node_id().raw(), e)).collect();
        let mut asked: Vec<Asked> = Vec::new();
        // what the lookup learned: initial candidates + records of accepted answers
        let mut learned: HashSet<Id> = table.clone();
        let mut reported_matching: HashSet<Id> = known.iter().filter(|e| matches(e)).map(|e| e.node_id().raw()).collect();
        let mut successes = 0usize;
        let mut log: Vec<Value> = Vec::new();
        let w = |what: &str, log: &Vec<Value>| json!({"scenario_seed": seed.to_string(), "half": "service", "what": what, "predicate": predicate, "parallelism": parallelism, "target": hx(&target), "log": log.iter().rev().take(40).rev().cloned().collect::<Vec<_>>()});
        let t0 = Instant::now();
        let mut late = 0u64;
        let mut last_drain = Instant::now();
        for _round in 0..400 {
            rig.settle().await;
            // The harness sees requests when it drains, not when they were sent. The in-flight
            // bound is judged only when the previous drain was less than 5 ms ago, so that every
            // request of this batch is known to be younger than that.
            let gap = last_drain.elapsed();
            last_drain = Instant::now();
            let timing_ok = gap < Duration::from_millis(5);
            // judgements of this batch are kept back until the batch has been handled: if the
            // process was stalled meanwhile, the requests were older than they looked
            let mut batch_violations: Vec<(String, Value)> = Vec::new();
            // new requests of the lookup
            for m in rig.take_handler_in() {
                if let HandlerIn::Request(c, r) = m {
                    if let RequestBody::FindNode { distances } = &r.body {
                        let na = c.node_address();
                        let id = na.node_id.raw();
                        log.push(json!({"t_ms": t0.elapsed().as_millis() as u64, "ev": "FINDNODE", "to": hx(&id[..4]), "distances": distances}));
                        rep.count("findnode_requests");
                        if asked.iter().any(|a| a.na.node_id.raw() == id) {
                            rep.violation(&format!("{prefix}:peer-contacted-twice"), "a lookup sent its request to the same peer twice".into(), w("twice", &log));
                        }
                        let now = Instant::now();
                        let inflight = asked.iter().filter(|a| a.outcome.is_none() && now.duration_since(a.at) + Duration::from_millis(2) < PEER_TIMEOUT).count();
                        let bound = if successes >= parallelism.max(1) { 16 } else { parallelism };
                        rep.max("service_inflight", inflight as u64 + 1);
                        if !timing_ok {
                            rep.count("inflight_checks_skipped_for_timing");
                        } else {
                            rep.count("inflight_checks");
                        }
                        if timing_ok && inflight + 1 > bound.max(1) && prefix == "C09" {
                            batch_violations.push((format!("{} requests in flight, parallelism {parallelism} (successes so far {successes})", inflight + 1), w("parallelism", &log)));
                        }
                        asked.push(Asked { at: now, rid: r.id.clone(), na, distances: distances.clone(), outcome: None, partial: false });
                    } else {
                        rig.emit(HandlerOut::RequestFailed(r.id.clone(), RequestError::Timeout)).await;
                    }
                }
            }
            if last_drain.elapsed() < Duration::from_millis(5) {
                for (what, wit) in batch_violations {
                    rep.violation("C09:parallelism-exceeded", what, wit);
                }
            } else if !batch_violations.is_empty() {
                rep.count("inflight_judgements_dropped_after_stall");
            }
            if handle.is_finished() {
                break;
            }
            // give an outcome to one open request (or wait)
            let open: Vec<usize> = asked.iter().enumerate().filter(|(_, a)| a.outcome.is_none()).map(|(i, _)| i).collect();
            if open.is_empty() {
                // nothing in flight and nothing new: the lookup must end by itself or by its timeout
                break;
            }
            let i = *rng.pick(&open);
            match rng.below(10) {
                0 | 1 => {
                    asked[i].outcome = Some(false);
                    log.push(json!({"t_ms": t0.elapsed().as_millis() as u64, "ev": "RequestFailed", "peer": hx(&asked[i].na.node_id.raw()[..4])}));
                    rig.emit(HandlerOut::RequestFailed(asked[i].rid.clone(), RequestError::Timeout)).await;
                }
                2 => {
                    // stay silent for longer than the peer timeout, answer later
                    std::thread::sleep(PEER_TIMEOUT + Duration::from_millis(8));
                    late += 1;
                }
                _ => {
                    // NODES answer: records at the requested distances from the responder
                    let rid_raw = asked[i].na.node_id.raw();
                    let npk = 1 + rng.usize(3);
                    let mut recs: Vec<Enr> = Vec::new();
                    for _ in 0..rng.usize(7) {
                        let e = &uni.enrs[rng.usize(uni.enrs.len())];
                        let d = kb::log2(&rid_raw, &e.node_id().raw());
                        if asked[i].distances.contains(&d) && !recs.iter().any(|r| r.node_id() == e.node_id()) {
                            recs.push(e.clone());
                        }
                    }
                    let cut = rng.chance(1, 8) && npk > 1; // partial answer followed by a failure
                    let per = (recs.len() / npk).max(1);
                    let mut sent_recs: Vec<Enr> = Vec::new();
                    // the answer counts for the lookup only if the lookup was still running when
                    // its last packet (or the failure that ends a partial answer) was delivered
                    let mut in_time = true;
                    for k in 0..npk {
                        if cut && k == npk - 1 {
                            break;
                        }
                        let chunk: Vec<Enr> = recs.iter().skip(k * per).take(if k == npk - 1 { usize::MAX } else { per }).cloned().collect();
                        sent_recs.extend(chunk.iter().cloned());
                        in_time = !handle.is_finished();
                        rig.emit(HandlerOut::Response(asked[i].na.clone(), Box::new(Response { id: asked[i].rid.clone(), body: ResponseBody::Nodes { total: npk as u64, nodes: chunk } }))).await;
                        rig.settle().await;
                    }
                    if cut {
                        asked[i].partial = true;
                        in_time = !handle.is_finished();
                        rig.emit(HandlerOut::RequestFailed(asked[i].rid.clone(), RequestError::Timeout)).await;
                    }
                    if !in_time {
                        asked[i].outcome = Some(false);
                        log.push(json!({"t_ms": t0.elapsed().as_millis() as u64, "ev": "NODES after the lookup had ended", "peer": hx(&rid_raw[..4])}));
                        continue;
                    }
                    // a partial answer with no records at all counts as a failure in the service
                    let accepted = !cut || !sent_recs.is_empty();
                    asked[i].outcome = Some(accepted);
                    // If the lookup ended within this very step, the service may have polled the
                    // query (and finished it) before it handled this answer: the answer then counts
                    // as "may have answered" for soundness but its records are not surely learned.
                    rig.settle().await;
                    let surely_processed_while_running = !handle.is_finished();
                    if accepted {
                        successes += 1;
                        for e in &sent_recs {
                            if surely_processed_while_running {
                                learned.insert(e.node_id().raw());
                            }
                            if matches(e) {
                                reported_matching.insert(e.node_id().raw());
                            }
                        }
                    }
                    log.push(json!({"t_ms": t0.elapsed().as_millis() as u64, "ev": if cut { "NODES partial + failure" } else { "NODES" }, "peer": hx(&rid_raw[..4]), "records": sent_recs.len(), "packets": npk}));
                }
            }
        }
        // ---- bounded termination ----
        let all_outcomes = asked.iter().all(|a| a.outcome.is_some());
        // a lookup that ends after (nearly) the query timeout may have been cut off by it
        let mut cut_off = handle.is_finished() && t0.elapsed() + Duration::from_millis(15) >= QUERY_TIMEOUT;
        if !handle.is_finished() && all_outcomes {
            rig.settle().await;
        }
        if !handle.is_finished() {
            // premise of the bounded-progress form: a real sleep of query_timeout + peer_timeout
            // + 50 ms and one further wake-up of the service loop
            for a in asked.iter_mut().filter(|a| a.outcome.is_none()) {
                a.outcome = Some(false);
                rig.emit(HandlerOut::RequestFailed(a.rid.clone(), RequestError::Timeout)).await;
            }
            rig.settle().await;
            if !handle.is_finished() {
                std::thread::sleep(QUERY_TIMEOUT + PEER_TIMEOUT + Duration::from_millis(50));
                cut_off = true;
                rep.count("lookups_waiting_for_query_timeout");
                for _ in 0..3 {
                    rig.emit(HandlerOut::UnrecognizedFrame(UnrecognizedFrame { src_address: v4(10, 99, 0, 1, 1), packet: vec![1] })).await;
                    rig.settle().await;
                    // requests issued meanwhile get their outcome as well
                    for m in rig.take_handler_in() {
                        if let HandlerIn::Request(_, r) = m {
                            rig.emit(HandlerOut::RequestFailed(r.id.clone(), RequestError::Timeout)).await;
                        }
                    }
                    rig.settle().await;
                    if handle.is_finished() {
                        break;
                    }
                }
            }
        }
        rep.evaluations += 1;
        rep.count("service_lookups");
        if !handle.is_finished() {
            handle.abort();
            rep.violation(&format!("{prefix}:lookup-did-not-terminate"), format!("a lookup (parallelism {parallelism}) neither finished nor was cut off by the query timeout after every request got its outcome, a sleep past the timeouts and a service wake-up"), w("termination", &log));
            return;
        }
        let result = match handle.await {
            Ok(Ok(v)) => v,
            other => {
                rep.violation(&format!("{prefix}:callback-not-delivered"), format!("the lookup's result was not handed to the caller: {other:?}"), w("callback", &log));
                return;
            }
        };
        // ---- C10 on the callback value ----
        let c10 = if prefix == "C09" { "C10" } else { prefix };
        let ids: Vec<Id> = result.iter().map(|e| e.node_id().raw()).collect();
        let mut wres = w("result", &log);
        wres["result"] = json!(ids.iter().map(|i| hx(&i[..4])).collect::<Vec<_>>());
        if ids.len() > k_results {
            rep.violation(&format!("{c10}:too-many-results"), format!("{} records returned, k = {k_results}", ids.len()), wres.clone());
        }
        let set: HashSet<&Id> = ids.iter().collect();
        if set.len() != ids.len() {
            rep.violation(&format!("{c10}:duplicate-result"), "the result contains a node twice".into(), wres.clone());
        }
        for pair in ids.windows(2) {
            if kb::xor(&pair[0], &target) >= kb::xor(&pair[1], &target) {
                rep.violation(&format!("{c10}:result-order"), "the result is not in increasing distance to the target".into(), wres.clone());
                break;
            }
        }
        for (id, e) in ids.iter().zip(result.iter()) {
            let answered = asked.iter().any(|a| a.na.node_id.raw() == *id && a.outcome == Some(true));
            if !answered {
                rep.violation(&format!("{c10}:result-never-answered"), "the result contains a node that did not answer the lookup's request".into(), wres.clone());
            }
            if predicate && (!matches(e) || !reported_matching.contains(id)) {
                rep.violation(&format!("{c10}:result-not-matching"), "a predicate lookup returned a node whose record does not satisfy the predicate".into(), wres.clone());
            }
        }
        if ids.len() < k_results && !cut_off {
            rep.count("service_results_below_k");
            // every learned candidate was asked, or could not be contacted (not in the universe)
            let local = rig.local_id.raw();
            let missing: Vec<&Id> = learned.iter().filter(|i| **i != local && by_id.contains_key(*i) && !asked.iter().any(|a| a.na.node_id.raw() == **i)).collect();
            // the lookup only tracks the k closest initial candidates
            let mut init: Vec<&Id> = table.iter().collect();
            init.sort_by_key(|i| kb::xor(i, &target));
            let tracked_init: HashSet<&Id> = init.into_iter().take(k_results).collect();
            let missing: Vec<&&Id> = missing.iter().filter(|i| !table.contains(**i) || tracked_init.contains(**i)).collect();
            if !missing.is_empty() {
                let mut succ: Vec<(Id, bool)> = asked.iter().filter(|a| a.outcome == Some(true)).map(|a| (a.na.node_id.raw(), ids.contains(&a.na.node_id.raw()))).collect();
                succ.sort_by_key(|(i, _)| kb::xor(i, &target));
                wres["answered_sorted"] = json!(succ.iter().map(|(i, inres)| format!("{}:{}", hx(&i[..4]), inres)).collect::<Vec<_>>());
                wres["in_table"] = json!(succ.iter().map(|(i, _)| table.contains(i)).collect::<Vec<_>>());
                wres["not_contacted"] = json!(missing.iter().map(|i| hx(&i[..4])).collect::<Vec<_>>());
                rep.violation(&format!("{c10}:incomplete"), format!("fewer than k results without a timeout cut-off, but {} learned candidates were never asked", missing.len()), wres.clone());
            }
        }
        rep.fingerprint(&("svc", predicate, parallelism, asked.len().min(30), ids.len().min(16), cut_off, late.min(3)));
        if rep.want_sample() && asked.len() > 4 {
            rep.sample(json!({"scenario_seed": seed.to_string(), "half": "service", "predicate": predicate, "parallelism": parallelism, "requests": asked.len(), "results": ids.len(), "first_events": log.iter().take(10).cloned().collect::<Vec<_>>()}));
        }
    });
}
