//! C16 — IP-diversity limits of the routing table (R0 half: the table with the exported filters).
//!
//! The table is generic over its key, so the harness crafts keys into a few buckets and attaches
//! records from a pool (one signing key per table key, one record variant per subnet). After every
//! operation the monitor walks `iter_ref()` / `buckets_iter()` (never mutating) and counts stored
//! nodes per /24: <= 2 per bucket, <= 10 per table. Records without IPv4 must never be refused by
//! a filter.

use super::kb::{self, Id, IdPool};
use crate::peer::peersim::{build_enr, signing_key, EnrAddr};
use crate::rig::r1::{v4, v6};
use crate::util::{hx, Params, Report, Rng};
use discv5::kbucket::{FailureReason, InsertResult, UpdateResult};
use discv5::verif::ip_filtered_table;
use discv5::{ConnectionState, Enr};
use serde_json::{json, Value};
use std::collections::HashMap;
use std::time::Duration;

pub const NSUB: usize = 10;

pub fn subnet(s: usize) -> [u8; 3] {
    [10, 1 + (s / 4) as u8, 1 + (s % 4) as u8 * 16]
}

/// `variants[k][s]`: record of signing key k in subnet s (s == NSUB: no IPv4, IPv6 only or nothing).
pub struct RecordPool {
    pub variants: Vec<Vec<Enr>>,
}

impl RecordPool {
    pub fn new(rng: &mut Rng, n: usize) -> Self {
        let mut variants = Vec::new();
        for k in 0..n {
            let sk = signing_key(rng);
            let host = 1 + (k % 250) as u8;
            let port = 9000 + k as u16;
            let mk = |s: usize, seq: u64| -> Enr {
                if s < NSUB && k % 7 == 3 {
                    // an IPv4 address without a UDP port: it counts like any other address of its /24
                    let sn = subnet(s);
                    build_enr(&sk, seq, EnrAddr::IpOnly(v4(sn[0], sn[1], sn[2], host, port).ip()), None)
                } else if s < NSUB {
                    let sn = subnet(s);
                    build_enr(&sk, seq, EnrAddr::Socket(v4(sn[0], sn[1], sn[2], host, port)), None)
                } else if k % 2 == 0 {
                    build_enr(&sk, seq, EnrAddr::Socket(v6(k as u16 + 1, port)), None)
                } else {
                    build_enr(&sk, seq, EnrAddr::None, None)
                }
            };
            variants.push((0..=NSUB).map(|s| mk(s, 1 + s as u64)).collect());
        }
        RecordPool { variants }
    }
}

fn subnet_of(enr: &Enr) -> Option<[u8; 3]> {
    enr.ip4().map(|ip| {
        let o = ip.octets();
        [o[0], o[1], o[2]]
    })
}

pub fn scenario(seed: u64, pool: &RecordPool, rep: &mut Report) {
    let mut rng = Rng::new(seed);
    let nbuckets = 3 + rng.usize(4);
    let ids = IdPool::new(&mut rng, nbuckets, 34, false);
    let all_ids: Vec<Id> = ids.all_ids();
    // table key -> index into the record pool
    let mut rec_of: HashMap<Id, usize> = HashMap::new();
    for (i, id) in all_ids.iter().enumerate() {
        rec_of.insert(*id, i % pool.variants.len());
    }
    if all_ids.len() > pool.variants.len() {
        rep.inconclusive("record pool smaller than id pool".into());
        return;
    }
    let (timeout, tclass) = match rng.below(3) {
        0 => (Duration::ZERO, "elapsed"),
        1 => (Duration::from_secs(3600), "never"),
        _ => (Duration::from_millis(3), "mid-sequence"),
    };
    let _ = rec_of.len();
    let mut table = ip_filtered_table(discv5::enr::NodeId::new(&ids.local), timeout, 16);
    // subnet mix: mostly one hot subnet so that limits are actually hit
    let hot = rng.usize(NSUB);
    let pick_subnet = |rng: &mut Rng| -> usize {
        match rng.below(20) {
            0..=5 => hot,
            6..=15 => rng.usize(NSUB),
            _ => NSUB,
        }
    };
    let nops = 150 + rng.usize(250);
    let mut log: Vec<Value> = Vec::new();
    let mut max_table = 0usize;
    let mut max_bucket = 0usize;
    let mut refused = 0u64;
    let mut pending_seen = 0u64;
    for step in 0..nops {
        // one operation in six is aimed at a node that is waiting in a pending slot right now
        let waiting: Vec<Id> = table.buckets_iter().filter_map(|b| b.pending().map(|p| p.value().node_id().raw())).filter(|i| rec_of.contains_key(i)).collect();
        let id = if !waiting.is_empty() && rng.chance(1, 6) { *rng.pick(&waiting) } else { *rng.pick(&all_ids) };
        let k = rec_of[&id];
        let s = pick_subnet(&mut rng);
        let value = pool.variants[k][s].clone();
        let key = kb::key(&id);
        let opk = if step < 80 { rng.below(55) } else { rng.below(100) };
        let no_ip4 = s == NSUB;
        if opk < 55 {
            let r = table.insert_or_update(&key, value, kb::status(rng.chance(3, 5), rng.bool()));
            log.push(json!({"op": "insert_or_update", "id": hx(&id[28..]), "subnet": s, "result": format!("{r:?}").chars().take(40).collect::<String>()}));
            if let InsertResult::Failed(FailureReason::BucketFilter | FailureReason::TableFilter) = r {
                refused += 1;
                rep.count("refused_by_filter");
                if no_ip4 {
                    rep.violation("C16:no-ipv4-refused", "a record without an IPv4 address was refused by an IP filter".into(), json!({"scenario_seed": seed.to_string(), "step": step, "ops": log.iter().rev().take(8).rev().cloned().collect::<Vec<_>>()}));
                }
            }
        } else if opk < 70 {
            let r = table.update_node(&key, value, match rng.below(3) { 0 => None, 1 => Some(ConnectionState::Connected), _ => Some(ConnectionState::Disconnected) });
            log.push(json!({"op": "update_node", "id": hx(&id[28..]), "subnet": s, "result": format!("{r:?}")}));
            if let UpdateResult::Failed(FailureReason::BucketFilter | FailureReason::TableFilter) = r {
                refused += 1;
                rep.count("refused_by_filter");
                if no_ip4 {
                    rep.violation("C16:no-ipv4-refused", "a record update without an IPv4 address was refused by an IP filter".into(), json!({"scenario_seed": seed.to_string(), "step": step, "ops": log.iter().rev().take(8).rev().cloned().collect::<Vec<_>>()}));
                }
            }
        } else if opk < 82 {
            let r = table.update_node_status(&key, if rng.bool() { ConnectionState::Connected } else { ConnectionState::Disconnected }, None);
            log.push(json!({"op": "update_node_status", "id": hx(&id[28..]), "result": format!("{r:?}")}));
        } else if opk < 90 {
            let r = table.remove(&key);
            log.push(json!({"op": "remove", "id": hx(&id[28..]), "result": r}));
        } else if opk < 94 {
            let n = table.iter().count();
            log.push(json!({"op": "iter", "n": n}));
        } else if opk < 97 {
            while table.take_applied_pending().is_some() {}
            log.push(json!({"op": "take_applied_pending"}));
        } else {
            if tclass == "mid-sequence" {
                std::thread::sleep(Duration::from_millis(1 + rng.below(4)));
            }
            log.push(json!({"op": "sleep"}));
        }

        // ---- monitor: never mutating ----
        let mut table_count: HashMap<[u8; 3], usize> = HashMap::new();
        for (bi, b) in table.buckets_iter().enumerate() {
            let mut bucket_count: HashMap<[u8; 3], usize> = HashMap::new();
            for n in b.iter() {
                if let Some(sn) = subnet_of(&n.value) {
                    *bucket_count.entry(sn).or_default() += 1;
                    *table_count.entry(sn).or_default() += 1;
                }
            }
            if b.pending().is_some() {
                pending_seen += 1;
            }
            for (sn, c) in bucket_count {
                max_bucket = max_bucket.max(c);
                if c > 2 {
                    rep.violation("C16:bucket-subnet-limit", format!("bucket {bi} holds {c} nodes of subnet {sn:?}"), json!({"scenario_seed": seed.to_string(), "step": step, "pending_timeout_class": tclass, "ops": log.iter().rev().take(10).rev().cloned().collect::<Vec<_>>()}));
                }
            }
        }
        for (sn, c) in table_count {
            max_table = max_table.max(c);
            if c > 10 {
                rep.violation("C16:table-subnet-limit", format!("the table holds {c} nodes of subnet {sn:?}"), json!({"scenario_seed": seed.to_string(), "step": step, "pending_timeout_class": tclass, "ops": log.iter().rev().take(10).rev().cloned().collect::<Vec<_>>()}));
            }
        }
    }
    rep.evaluations += 1;
    rep.max("same_subnet_in_table", max_table as u64);
    rep.max("same_subnet_in_bucket", max_bucket as u64);
    rep.count_n("pending_observations", pending_seen);
    if max_table >= 10 {
        rep.count("scenarios_reaching_table_limit");
    }
    if max_bucket >= 2 {
        rep.count("scenarios_reaching_bucket_limit");
    }
    if refused > 0 {
        rep.fingerprint(&(tclass, nbuckets, max_table, max_bucket, refused.min(8), pending_seen.min(4)));
    }
    if rep.want_sample() && max_table >= 10 {
        rep.sample(json!({"scenario_seed": seed.to_string(), "buckets": nbuckets, "pending_timeout_class": tclass, "refused": refused, "first_ops": log.iter().take(10).cloned().collect::<Vec<_>>()}));
    }
}

pub fn run(p: &Params) -> Report {
    let mut rep = Report::new("C16");
    if let Some(r) = &p.replay {
        if super::sys::replay(r, &mut rep) {
            return rep;
        }
    }
    let mut prng = Rng::new(p.shard_seed(16));
    let pool = RecordPool::new(&mut prng, 210);
    if let Some(r) = &p.replay {
        // the record pool is a function of the shard seed only; replays re-run the scenario seed
        let seed: u64 = r["replay"]["scenario_seed"].as_str().unwrap().parse().unwrap();
        if r["replay"]["kind"] == "pending-update" {
            scenario_pending_update(seed, &pool, &mut rep);
        } else if r["replay"]["kind"] == "service" {
            scenario_service(seed, &pool, &mut rep);
        } else {
            scenario(seed, &pool, &mut rep);
        }
        return rep;
    }
    let u = p.budget(640, 32_000);
    for i in 0..u {
        let seed = p.shard_seed(0x16A_000 + i);
        crate::util::guarded(&mut rep, seed, |rep| scenario_pending_update(seed, &pool, rep));
    }
    let m = p.budget(800, 40_000);
    for i in 0..m {
        let seed = p.shard_seed(0x16F_000 + i);
        crate::util::guarded(&mut rep, seed, |rep| scenario_service(seed, &pool, rep));
    }
    let n = p.budget(4_000, 400_000);
    for i in 0..n {
        let seed = p.shard_seed(0x16_000 + i);
        crate::util::guarded(&mut rep, seed, |rep| scenario(seed, &pool, rep));
    }
    // real concurrency: the live table of an unmodified Discv5 walked under its lock while user
    // threads call the public API and the node talks to a simulated network (real time)
    super::sys::run_concurrent(p, super::sys::Focus::C16, 0x5C16_0000, 64, 3_200, &mut rep);
    rep
}

/* ------------------------------------------------------------------------------------------ */
/* R2 half: the same limits through a real Discv5 built with `ip_limit`                        */

pub fn scenario_service(seed: u64, pool: &RecordPool, rep: &mut Report) {
    use crate::rig::r2::{runtime, Mode, ServiceCfg, ServiceRig};
    use discv5::verif::{ConnectionDirection, HandlerOut};
    let rt = runtime(seed);
    rt.block_on(async {
        let mut rng = Rng::new(seed ^ 0x16F);
        let rig = ServiceRig::start(&mut rng, ServiceCfg { mode: Mode::Ip4, local_enr_has_addr: true, tweak: Box::new(|b| {
            b.ip_limit();
        }) }).await;
        let hot = rng.usize(NSUB);
        let mut log: Vec<Value> = Vec::new();
        let mut max_table = 0usize;
        let mut max_bucket = 0usize;
        let n = 60 + rng.usize(120);
        for step in 0..n {
            let k = rng.usize(pool.variants.len());
            let s = match rng.below(10) {
                0..=6 => hot,
                _ => rng.usize(NSUB),
            };
            let enr = pool.variants[k][s].clone();
            if rng.bool() || enr.udp4_socket().is_none() {
                let r = rig.discv5.add_enr(enr.clone());
                log.push(json!({"step": step, "ev": "add_enr", "subnet": s, "result": format!("{r:?}")}));
            } else {
                let sock = std::net::SocketAddr::V4(enr.udp4_socket().unwrap());
                let dir = if rng.bool() { ConnectionDirection::Incoming } else { ConnectionDirection::Outgoing };
                rig.emit(HandlerOut::Established(enr, sock, dir)).await;
                rig.settle().await;
                log.push(json!({"step": step, "ev": "Established", "subnet": s}));
            }
            // monitor under the table lock, never mutating
            let (t, b) = rig.discv5.with_kbuckets(|kb| {
                let kb = kb.read();
                let mut table: HashMap<[u8; 3], usize> = HashMap::new();
                let mut worst_bucket = 0usize;
                for bucket in kb.buckets_iter() {
                    let mut per: HashMap<[u8; 3], usize> = HashMap::new();
                    for n in bucket.iter() {
                        if let Some(sn) = subnet_of(&n.value) {
                            *per.entry(sn).or_default() += 1;
                            *table.entry(sn).or_default() += 1;
                        }
                    }
                    worst_bucket = worst_bucket.max(per.values().copied().max().unwrap_or(0));
                }
                (table.values().copied().max().unwrap_or(0), worst_bucket)
            });
            max_table = max_table.max(t);
            max_bucket = max_bucket.max(b);
            if t > 10 {
                rep.violation("C16:table-subnet-limit", format!("a Discv5 built with ip_limit holds {t} nodes of one /24"), json!({"scenario_seed": seed.to_string(), "kind": "service", "log": log.iter().rev().take(12).rev().cloned().collect::<Vec<_>>()}));
                break;
            }
            if b > 2 {
                rep.violation("C16:bucket-subnet-limit", format!("a Discv5 built with ip_limit holds {b} nodes of one /24 in one bucket"), json!({"scenario_seed": seed.to_string(), "kind": "service", "log": log.iter().rev().take(12).rev().cloned().collect::<Vec<_>>()}));
                break;
            }
        }
        rep.evaluations += 1;
        rep.count("service_scenarios");
        rep.max("service_same_subnet_in_table", max_table as u64);
        rep.max("service_same_subnet_in_bucket", max_bucket as u64);
        rep.fingerprint(&("service", max_table, max_bucket, n / 20));
    });
}

/* ------------------------------------------------------------------------------------------ */
/* R2, crafted: a pending candidate whose record moves into a crowded /24 before it is promoted */

/// The state is built on a real `Discv5` with `ip_limit()` and a pending timeout of a few
/// milliseconds (hook): `crowd` nodes of one /24 A spread over the table (at most two per bucket),
/// the farthest bucket full of disconnected nodes of other subnets, a connected candidate P of
/// another subnet waiting in that bucket's pending slot. A lookup peer then returns a newer record
/// of P that lies in A. After the pending timeout the table is read (which promotes candidates)
/// and the subnet counts are taken under the table lock.
pub fn scenario_pending_update(seed: u64, pool: &RecordPool, rep: &mut Report) {
    use crate::rig::r2::{runtime, Mode, ServiceCfg, ServiceRig};
    use discv5::enr::NodeId;
    use discv5::verif::{ConnectionDirection, HandlerIn, HandlerOut, RequestBody, Response, ResponseBody};
    use discv5::{NodeAddress, RequestError};
    let rt = runtime(seed);
    rt.block_on(async {
        let mut rng = Rng::new(seed ^ 0x16AD);
        let pending_ms = 20u64;
        discv5::verif::set_pending_timeout(Some(Duration::from_millis(pending_ms)));
        let mut rig = ServiceRig::start(&mut rng, ServiceCfg { mode: Mode::Ip4, local_enr_has_addr: true, tweak: Box::new(|b| {
            b.ip_limit();
        }) }).await;
        discv5::verif::set_pending_timeout(None);
        let local: Id = rig.local_id.raw();
        // identities by bucket
        let mut by_dist: HashMap<u64, Vec<usize>> = HashMap::new();
        for (k, v) in pool.variants.iter().enumerate() {
            by_dist.entry(kb::log2(&local, &v[0].node_id().raw())).or_default().push(k);
        }
        for v in by_dist.values_mut() {
            rng.shuffle(v);
        }
        let a = 1 + rng.usize(NSUB - 3); // the crowded subnet; a record in it is newer than one in a lower subnet
        let p_sub = rng.usize(a); // the candidate's subnet before its record changes
        let crowd = *rng.pick(&[10usize, 10, 10, 9, 8]);
        // spread `crowd` nodes of A: one in the farthest bucket, the rest two per nearer bucket
        let mut placed = 0usize;
        let mut used: Vec<usize> = Vec::new();
        let mut take = |d: u64, by_dist: &mut HashMap<u64, Vec<usize>>| -> Option<usize> { by_dist.get_mut(&d).and_then(|v| v.pop()) };
        if let Some(k) = take(256, &mut by_dist) {
            if rig.discv5.add_enr(pool.variants[k][a].clone()).is_ok() {
                placed += 1;
                used.push(k);
            }
        }
        let mut d = 255u64;
        while placed < crowd && d >= 247 {
            for _ in 0..2 {
                if placed < crowd {
                    if let Some(k) = take(d, &mut by_dist) {
                        if rig.discv5.add_enr(pool.variants[k][a].clone()).is_ok() {
                            placed += 1;
                            used.push(k);
                        }
                    }
                }
            }
            d -= 1;
        }
        if placed < crowd {
            rep.count("pending_update_scenarios_without_enough_buckets");
            return;
        }
        // fill the farthest bucket with disconnected nodes of other subnets (two per subnet)
        let mut others: Vec<usize> = (0..NSUB).filter(|s| *s != a).collect();
        rng.shuffle(&mut others);
        let mut in_far = 1usize;
        let mut p_sub_in_far = 0usize;
        'fill: for s in others.iter().cycle().take(2 * others.len()) {
            if in_far >= 16 {
                break 'fill;
            }
            // leave room for the candidate: at most one node of its subnet in this bucket
            if *s == p_sub && p_sub_in_far >= 1 {
                continue;
            }
            if let Some(k) = take(256, &mut by_dist) {
                if rig.discv5.add_enr(pool.variants[k][*s].clone()).is_ok() {
                    in_far += 1;
                    if *s == p_sub {
                        p_sub_in_far += 1;
                    }
                }
            }
        }
        let full = rig.discv5.with_kbuckets(|t| t.read().buckets_iter().last().map(|b| b.iter().count()).unwrap_or(0)) == 16;
        if !full {
            rep.count("pending_update_scenarios_without_full_bucket");
            return;
        }
        // the candidate: connected, of a subnet below A's variant index so that its A-variant is newer
        let Some(pk) = take(256, &mut by_dist) else { return };
        let p_old = pool.variants[pk][p_sub].clone();
        if p_old.seq() >= pool.variants[pk][a].seq() {
            // the no-IPv4 variant has the highest seq: use a lower subnet instead
            rep.count("pending_update_scenarios_skipped");
            return;
        }
        let p_sock = match p_old.udp4_socket() {
            Some(s) => std::net::SocketAddr::V4(s),
            None => {
                rep.count("pending_update_scenarios_skipped");
                return;
            }
        };
        rig.emit(HandlerOut::Established(p_old.clone(), p_sock, ConnectionDirection::Outgoing)).await;
        rig.settle().await;
        let is_pending = rig.discv5.with_kbuckets(|t| t.read().buckets_iter().last().and_then(|b| b.pending().map(|p| p.value().node_id() == p_old.node_id())).unwrap_or(false));
        // fail whatever the service wanted from its handler so far
        for m in rig.take_handler_in() {
            if let HandlerIn::Request(_, r) = m {
                rig.emit(HandlerOut::RequestFailed(r.id.clone(), RequestError::Timeout)).await;
            }
        }
        rig.settle().await;
        rig.take_handler_in();
        if !is_pending {
            // the candidate was promoted already (the process stalled longer than the timeout)
            rep.count("pending_update_scenarios_candidate_not_pending");
            return;
        }
        // a lookup for P's id: every peer is asked for the distance P has from it
        let p_id: Id = p_old.node_id().raw();
        let lookup = tokio::spawn(rig.discv5.find_node(NodeId::new(&p_id)));
        rig.settle().await;
        let msgs = rig.take_handler_in();
        let mut answered = false;
        let p_new = pool.variants[pk][a].clone();
        for m in msgs {
            if let HandlerIn::Request(c, r) = m {
                let ok = match &r.body {
                    RequestBody::FindNode { distances } => distances.contains(&kb::log2(&c.node_id().raw(), &p_id)),
                    _ => false,
                };
                if ok && !answered && c.node_id().raw() != p_id {
                    answered = true;
                    let na = NodeAddress::new(c.socket_addr(), c.node_id());
                    rig.emit(HandlerOut::Response(na, Box::new(Response { id: r.id.clone(), body: ResponseBody::Nodes { total: 1, nodes: vec![p_new.clone()] } }))).await;
                } else {
                    rig.emit(HandlerOut::RequestFailed(r.id.clone(), RequestError::Timeout)).await;
                }
            }
        }
        rig.settle().await;
        for _ in 0..10 {
            let more = rig.take_handler_in();
            if more.is_empty() {
                break;
            }
            for m in more {
                if let HandlerIn::Request(_, r) = m {
                    rig.emit(HandlerOut::RequestFailed(r.id.clone(), RequestError::Timeout)).await;
                }
            }
            rig.settle().await;
        }
        lookup.abort();
        if !answered {
            rep.count("pending_update_scenarios_no_request_to_answer");
            return;
        }
        // the pending timeout passes; reading the table promotes what is due
        std::thread::sleep(Duration::from_millis(pending_ms + 3));
        let _ = rig.discv5.table_entries();
        rig.settle().await;
        let (t, b, p_in_table) = rig.discv5.with_kbuckets(|kb| {
            let kb = kb.read();
            let mut table: HashMap<[u8; 3], usize> = HashMap::new();
            let mut worst = 0usize;
            let mut found = false;
            for bucket in kb.buckets_iter() {
                let mut per: HashMap<[u8; 3], usize> = HashMap::new();
                for n in bucket.iter() {
                    if n.value.node_id() == p_old.node_id() {
                        found = true;
                    }
                    if let Some(sn) = subnet_of(&n.value) {
                        *per.entry(sn).or_default() += 1;
                        *table.entry(sn).or_default() += 1;
                    }
                }
                worst = worst.max(per.values().copied().max().unwrap_or(0));
            }
            (table.values().copied().max().unwrap_or(0), worst, found)
        });
        rep.evaluations += 1;
        rep.count("pending_update_scenarios");
        if p_in_table {
            rep.count("pending_update_candidate_promoted");
        }
        let w = json!({"scenario_seed": seed.to_string(), "kind": "pending-update", "crowded_subnet": format!("{:?}", subnet(a)), "nodes_of_it_before": crowd, "candidate_subnet_before": p_sub, "candidate_promoted": p_in_table});
        if t > 10 {
            rep.violation("C16:table-subnet-limit", format!("after a pending candidate's record moved into a /24 that already had {crowd} nodes and the candidate was promoted, the table holds {t} nodes of that /24"), w.clone());
        }
        if b > 2 {
            rep.violation("C16:bucket-subnet-limit", format!("a bucket holds {b} nodes of one /24 after a pending candidate was promoted"), w);
        }
        rep.fingerprint(&("pending-update", crowd, p_sub.min(NSUB), p_in_table, t.min(12)));
    });
}
