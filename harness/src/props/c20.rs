//! C20 — every TALK request is answered exactly once.
//!
//! R2 rig. TALKREQs are emitted as the handler would deliver them; the application responds to,
//! drops or holds each `TalkRequest` in seeded order (on other OS threads in the multi-threaded
//! variant); some are held across `shutdown()` and then responded to / dropped inside a panic
//! probe. Oracle: per TALKREQ exactly one `HandlerIn::Response` with the same id to the same node
//! address, carrying the application's payload or an empty one; after shutdown `respond` returns
//! an error, dropping is silent, nothing panics.

use crate::rig::r1::{v4, v6};
use crate::rig::r2::{runtime, Mode, ServiceCfg, ServiceRig};
use crate::util::{hx, probe, Params, Report, Rng};
use discv5::enr::NodeId;
use discv5::verif::{HandlerIn, HandlerOut, Request, RequestBody, ResponseBody};
use discv5::{Event, NodeAddress, RequestId, TalkRequest};
use serde_json::{json, Value};
use std::collections::HashMap;

#[derive(Clone, Debug, PartialEq)]
enum Fate {
    Respond(Vec<u8>),
    Drop,
    /// Held until after shutdown, then responded to (true) or dropped (false).
    HoldAcrossShutdown(bool),
}

fn talk_requests(rng: &mut Rng, n: usize) -> Vec<(NodeAddress, Vec<u8>, Vec<u8>)> {
    talk_requests_known(rng, n).0
}

/// ... and the records of those requesters that are routing-table entries of the node under test:
/// such a record may name another socket than the one the request comes from (a peer behind NAT,
/// a changed port, a stale record).
fn talk_requests_known(rng: &mut Rng, n: usize) -> (Vec<(NodeAddress, Vec<u8>, Vec<u8>)>, Vec<discv5::Enr>) {
    use crate::peer::peersim::{build_enr, signing_key, EnrAddr};
    let nsrc = 1 + rng.usize(6);
    let mut known = Vec::new();
    let sources: Vec<NodeAddress> = (0..nsrc)
        .map(|i| {
            let mut id: [u8; 32] = rng.array();
            if i % 4 < 2 && rng.bool() {
                let sk = signing_key(rng);
                let advertised = match rng.below(3) {
                    0 => v4(10, 5, 0, i as u8 + 1, 4000 + i as u16),
                    1 => v4(10, 5, 0, i as u8 + 1, 31000 + i as u16),
                    _ => v4(10, 6, 6, i as u8 + 1, 4000 + i as u16),
                };
                // ... single-stack, or dual-stack (the node under test, itself dual-stack, then
                // prefers the record's IPv6 socket for its own requests)
                let e = if rng.chance(1, 3) {
                    crate::peer::peersim::build_enr2(&sk, 1 + rng.below(3), EnrAddr::Socket(advertised), EnrAddr::Socket(v6(0x50 + i as u16, 4100 + i as u16)), None)
                } else {
                    build_enr(&sk, 1 + rng.below(3), EnrAddr::Socket(advertised), None)
                };
                id = e.node_id().raw();
                known.push(e);
            }
            // plain IPv4, IPv6, and IPv4-mapped IPv6 (an IPv4 peer seen through a dual-stack socket)
            let addr = match i % 4 {
                2 => v6(i as u16 + 1, 4000 + i as u16),
                3 => std::net::SocketAddr::new(std::net::IpAddr::V6(std::net::Ipv4Addr::new(10, 5, 0, i as u8 + 1).to_ipv6_mapped()), 4000 + i as u16),
                _ => v4(10, 5, 0, i as u8 + 1, 4000 + i as u16),
            };
            NodeAddress::new(addr, NodeId::new(&id))
        })
        .collect();
    let reqs = (0..n)
        .map(|k| {
            let src = rng.pick(&sources).clone();
            // unique ids of varying length (0..8 bytes would collide: keep 2..8 with a counter)
            let mut id = vec![(k >> 8) as u8, k as u8];
            let extra = rng.usize(7);
            id.extend(rng.bytes(extra));
            let body = match rng.below(3) {
                0 => vec![],
                _ => {
                    let n = rng.usize(40);
                    rng.bytes(n)
                }
            };
            (src, id, body)
        })
        .collect();
    (reqs, known)
}

fn judge(
    rep: &mut Report,
    seed: u64,
    variant: &str,
    emitted: &[(NodeAddress, Vec<u8>, Vec<u8>)],
    fates: &HashMap<Vec<u8>, Fate>,
    responses: &[(NodeAddress, Vec<u8>, Vec<u8>)],
    log: &[Value],
) {
    let mut by_id: HashMap<Vec<u8>, Vec<&(NodeAddress, Vec<u8>, Vec<u8>)>> = HashMap::new();
    for r in responses {
        by_id.entry(r.1.clone()).or_default().push(r);
    }
    let w = |what: &str, id: &[u8]| json!({"scenario_seed": seed.to_string(), "variant": variant, "what": what, "request": hx(id), "log": log});
    for (src, id, _) in emitted {
        let got = by_id.get(id).map(|v| v.as_slice()).unwrap_or(&[]);
        match fates.get(id) {
            Some(Fate::HoldAcrossShutdown(_)) => {
                rep.count("held_across_shutdown");
                if !got.is_empty() {
                    rep.violation("C20:response-for-held-request", "a TALK request that was still held by the application got a response".into(), w("held", id));
                }
            }
            fate => {
                rep.count("talk_requests_judged");
                if got.len() > 1 {
                    rep.violation("C20:two-responses", format!("{} responses for one TALK request", got.len()), w("twice", id));
                } else if got.is_empty() {
                    rep.violation("C20:no-response", format!("no response for a TALK request whose object was {}", match fate { Some(Fate::Respond(_)) => "responded to", Some(Fate::Drop) => "dropped", _ => "never delivered (dropped by the service)" }), w("none", id));
                } else {
                    let (to, _, body) = got[0];
                    if to != src {
                        rep.violation("C20:response-misaddressed", "the response went to another node address".into(), w("address", id));
                    }
                    let want: &[u8] = match fate {
                        Some(Fate::Respond(p)) => p,
                        _ => &[],
                    };
                    if body != want {
                        rep.violation("C20:wrong-payload", format!("response payload {} differs from the application's {}", hx(body), hx(want)), w("payload", id));
                    }
                }
            }
        }
    }
    for id in by_id.keys() {
        if !emitted.iter().any(|e| &e.1 == id) {
            rep.violation("C20:unsolicited-response", "a TALK response for an id that was never requested".into(), w("unsolicited", id));
        }
    }
}

fn collect_responses(msgs: Vec<HandlerIn>) -> Vec<(NodeAddress, Vec<u8>, Vec<u8>)> {
    msgs.into_iter()
        .filter_map(|m| match m {
            HandlerIn::Response(to, r) => match r.body {
                ResponseBody::Talk { response } => Some((to, r.id.0.clone(), response)),
                _ => None,
            },
            _ => None,
        })
        .collect()
}

pub fn scenario(seed: u64, rep: &mut Report) {
    let rt = runtime(seed);
    rt.block_on(async {
        let mut rng = Rng::new(seed ^ 0xC20);
        let report_discovered = rng.bool(); // event channel capacity 100 vs 30
        // some scenarios hold requests for longer (wall clock) than any request timeout
        let long_hold = rng.chance(1, 16);
        let cfg = ServiceCfg { mode: Mode::Dual, tweak: Box::new(move |b| {
            if !report_discovered {
                b.disable_report_discovered_peers();
            }
            if long_hold {
                b.request_timeout(std::time::Duration::from_millis(8));
                b.request_retries(0);
            }
        }), local_enr_has_addr: false };
        let mut rig = ServiceRig::start(&mut rng, cfg).await;
        let n = match rng.below(4) {
            0 => 1 + rng.usize(4),
            1 => 100 + rng.usize(60), // more than the event channel holds
            _ => 1 + rng.usize(64),
        };
        let (emitted, known) = talk_requests_known(&mut rng, n);
        for e in &known {
            if rig.discv5.add_enr(e.clone()).is_ok() {
                rep.count("requesters_in_routing_table");
            }
        }
        let mut fates: HashMap<Vec<u8>, Fate> = HashMap::new();
        let mut held: Vec<TalkRequest> = Vec::new();
        let mut across: Vec<(TalkRequest, bool)> = Vec::new();
        let mut log: Vec<Value> = Vec::new();
        let mut responses = Vec::new();
        let mut banned_meanwhile: Vec<NodeId> = Vec::new();
        let mut banned_ips_meanwhile: Vec<std::net::IpAddr> = Vec::new();
        let burst = rng.chance(1, 2);
        let mut i = 0;
        while i < emitted.len() {
            let k = if burst { emitted.len() - i } else { 1 + rng.usize(8) };
            for (src, id, body) in &emitted[i..(i + k).min(emitted.len())] {
                rig.emit(HandlerOut::Request(src.clone(), Box::new(Request { id: RequestId(id.clone()), body: RequestBody::Talk { protocol: b"verif".to_vec(), request: body.clone() } }))).await;
            }
            i += k;
            rig.settle().await;
            for ev in rig.take_events() {
                if let Event::TalkRequest(req) = ev {
                    held.push(req);
                }
            }
            // act on a random subset of what the application holds, in random order
            rng.shuffle(&mut held);
            let act = rng.usize(held.len() + 1);
            for _ in 0..act {
                let req = held.pop().unwrap();
                let id = req.id().0.clone();
                match rng.below(5) {
                    0 | 1 => {
                        let len = rng.usize(30);
                        let payload = if rng.chance(1, 5) { vec![] } else { rng.bytes(len) };
                        log.push(json!(format!("respond {} with {} bytes", hx(&id), payload.len())));
                        // (a requester banned while the application held its request is still
                        // owed its response)
                        if rng.chance(1, 8) {
                            let nid = *req.node_id();
                            if rng.bool() {
                                rig.discv5.ban_node(&nid, None);
                                banned_meanwhile.push(nid);
                            } else {
                                let ip = emitted.iter().find(|(_, i, _)| *i == id).map(|(src, _, _)| src.socket_addr.ip()).expect("request was emitted");
                                rig.discv5.ban_ip(ip, None);
                                banned_ips_meanwhile.push(ip);
                            }
                            rep.count("responded_after_requester_was_banned");
                        }
                        fates.insert(id, Fate::Respond(payload.clone()));
                        if req.respond(payload).is_err() {
                            rep.violation("C20:respond-failed-while-running", "respond() returned an error while the service was running".into(), json!({"scenario_seed": seed.to_string()}));
                        }
                    }
                    2 | 3 => {
                        log.push(json!(format!("drop {}", hx(&id))));
                        // now and then the requester got banned while the application held its
                        // request: the request is still owed its (empty) response
                        if rng.chance(1, 6) {
                            let nid = *req.node_id();
                            rig.discv5.ban_node(&nid, None);
                            banned_meanwhile.push(nid);
                            rep.count("dropped_after_requester_was_banned");
                        }
                        fates.insert(id, Fate::Drop);
                        // the ways an application lets go of a request: it simply drops it, drops
                        // it on another thread, or its handler dies (panics) while holding it
                        match rng.below(4) {
                            0 => {
                                let _ = std::thread::spawn(move || drop(req)).join();
                                rep.count("dropped_on_another_thread");
                            }
                            1 => {
                                let _ = std::thread::spawn(move || {
                                    let _held = req;
                                    std::panic::resume_unwind(Box::new("application handler failed"));
                                })
                                .join();
                                rep.count("dropped_by_a_panicking_handler");
                            }
                            _ => drop(req),
                        }
                    }
                    _ => {
                        let respond_later = rng.bool();
                        fates.insert(id, Fate::HoldAcrossShutdown(respond_later));
                        across.push((req, respond_later));
                    }
                }
            }
            rig.settle().await;
            responses.extend(collect_responses(rig.take_handler_in()));
        }
        for nid in banned_meanwhile.drain(..) {
            rig.discv5.ban_node_remove(&nid);
        }
        for ip in banned_ips_meanwhile.drain(..) {
            rig.discv5.ban_ip_remove(&ip);
        }
        // act on everything still held (except those kept for after shutdown)
        if long_hold && !held.is_empty() {
            std::thread::sleep(std::time::Duration::from_millis(30));
            rep.count("scenarios_holding_past_request_timeout");
        }
        for req in held.drain(..) {
            let id = req.id().0.clone();
            if rng.bool() {
                let payload = rng.bytes(5);
                fates.insert(id, Fate::Respond(payload.clone()));
                let _ = req.respond(payload);
            } else {
                fates.insert(id, Fate::Drop);
                drop(req);
            }
        }
        rig.settle().await;
        responses.extend(collect_responses(rig.take_handler_in()));
        // ---- shutdown; the handler side goes away as the real one does ----
        std::sync::Arc::get_mut(&mut rig.discv5).expect("the rig is the only owner").shutdown();
        rig.settle().await;
        responses.extend(collect_responses(rig.take_handler_in()));
        rig.script = None;
        rig.settle().await;
        crate::util::quiet_panics_inside_probes();
        for (req, respond) in across.drain(..) {
            rep.count("acted_after_shutdown");
            let r = probe(move || if respond { req.respond(vec![1, 2, 3]).is_err() } else {
                drop(req);
                true
            });
            match r {
                Err(()) => rep.violation("C20:panic-after-shutdown", "responding to / dropping a TALK request after shutdown panicked".into(), json!({"scenario_seed": seed.to_string(), "respond": respond})),
                Ok(false) => rep.violation("C20:respond-ok-after-shutdown", "respond() reported success after shutdown".into(), json!({"scenario_seed": seed.to_string()})),
                Ok(true) => {}
            }
        }
        rep.evaluations += 1;
        judge(rep, seed, "single-thread", &emitted, &fates, &responses, &log);
        let undelivered = emitted.iter().filter(|e| !fates.contains_key(&e.1)).count();
        rep.count_n("requests_dropped_by_full_event_channel", undelivered as u64);
        rep.fingerprint(&(n.min(70) / 8, burst, undelivered > 0, fates.values().filter(|f| matches!(f, Fate::HoldAcrossShutdown(_))).count().min(4)));
        if rep.want_sample() {
            rep.sample(json!({"scenario_seed": seed.to_string(), "talk_requests": n, "burst": burst, "undelivered": undelivered, "actions": log.iter().take(12).cloned().collect::<Vec<_>>()}));
        }
    });
}

/// Multi-threaded variant: the application acts on other OS threads while requests keep flowing.
pub fn scenario_mt(seed: u64, rep: &mut Report) {
    let rt = tokio::runtime::Builder::new_multi_thread().worker_threads(3).enable_all().build().expect("runtime");
    let mut rng = Rng::new(seed ^ 0xC20F);
    let n = 40 + rng.usize(60);
    let emitted = talk_requests(&mut rng, n);
    let (tx, rx) = std::sync::mpsc::channel::<TalkRequest>();
    let rx = std::sync::Arc::new(std::sync::Mutex::new(rx));
    let fates = std::sync::Arc::new(std::sync::Mutex::new(HashMap::<Vec<u8>, Fate>::new()));
    let mut workers = Vec::new();
    for t in 0..4u64 {
        let rx = rx.clone();
        let fates = fates.clone();
        let mut wr = Rng::new(seed ^ (t + 1) * 7919);
        workers.push(std::thread::spawn(move || loop {
            let req = { rx.lock().unwrap().recv() };
            let Ok(req) = req else { break };
            let id = req.id().0.clone();
            if wr.chance(1, 3) {
                std::thread::sleep(std::time::Duration::from_micros(wr.below(300)));
            }
            if wr.bool() {
                let payload = wr.bytes(6);
                fates.lock().unwrap().insert(id, Fate::Respond(payload.clone()));
                let _ = req.respond(payload);
            } else {
                fates.lock().unwrap().insert(id, Fate::Drop);
                drop(req);
            }
        }));
    }
    let responses = rt.block_on(async {
        let mut rig = ServiceRig::start(&mut rng, ServiceCfg { mode: Mode::Dual, ..Default::default() }).await;
        let mut responses = Vec::new();
        for chunk in emitted.chunks(7) {
            for (src, id, body) in chunk {
                rig.emit(HandlerOut::Request(src.clone(), Box::new(Request { id: RequestId(id.clone()), body: RequestBody::Talk { protocol: b"verif".to_vec(), request: body.clone() } }))).await;
            }
            // forward events to the worker threads as they come
            for _ in 0..20 {
                tokio::time::sleep(std::time::Duration::from_micros(200)).await;
                for ev in rig.take_events() {
                    if let Event::TalkRequest(req) = ev {
                        let _ = tx.send(req);
                    }
                }
            }
            responses.extend(collect_responses(rig.take_handler_in()));
        }
        // wait (bounded) until every delivered request has been acted upon and answered
        for _ in 0..2000 {
            tokio::time::sleep(std::time::Duration::from_millis(1)).await;
            for ev in rig.take_events() {
                if let Event::TalkRequest(req) = ev {
                    let _ = tx.send(req);
                }
            }
            responses.extend(collect_responses(rig.take_handler_in()));
            if responses.len() >= emitted.len() {
                break;
            }
        }
        tokio::time::sleep(std::time::Duration::from_millis(5)).await;
        responses.extend(collect_responses(rig.take_handler_in()));
        responses
    });
    drop(tx);
    for w in workers {
        let _ = w.join();
    }
    rep.evaluations += 1;
    rep.count("multi_thread_scenarios");
    if responses.len() < emitted.len() {
        // the wall-clock watchdog fired: not a verdict
        rep.inconclusive(format!("multi-thread scenario {seed}: only {} of {} responses within the watchdog", responses.len(), emitted.len()));
    }
    let fates = fates.lock().unwrap().clone();
    judge(rep, seed, "multi-thread", &emitted, &fates, &responses, &[]);
    rep.fingerprint(&("mt", n / 10));
}

/// Handler level (R1): a TALKREQ that the real handler delivers is answered on the wire exactly
/// once, whatever the state of the session it arrived on — in particular a session this node
/// dialled without knowing the peer's record and whose record request is still unanswered.
pub fn scenario_wire(seed: u64, rep: &mut Report) {
    use crate::peer::rlp_ref::RefMessage;
    use crate::rig::engine::{Engine, Ev, OutClass};
    use crate::rig::r1::RigConfig;
    let rt = crate::rig::r1::runtime(seed);
    rt.block_on(async {
        let mut rng = Rng::new(seed ^ 0x20E);
        let mut e = Engine::new(seed, RigConfig::default(), 2, None).await;
        e.app_responds = true;
        e.app_knows_peers = rng.bool();
        let with_enr = rng.chance(1, 3);
        let ignores = rng.chance(2, 3);
        e.peers[0].behaviour.ignore_enr_requests = ignores;
        // the node dials peer 0 (mostly without its record); peer 1 is only ever incoming
        let dial_kind = if rng.bool() { 1 } else { 5 };
        e.submit(0, dial_kind, with_enr);
        let settle = std::time::Duration::from_millis(*rng.pick(&[3u64, 10, 40]));
        e.run_for(settle).await;
        let n = 1 + rng.usize(4);
        for _ in 0..n {
            let who = if rng.chance(3, 4) { 0 } else { 1 };
            e.peer_request(who, 5);
            let gap = std::time::Duration::from_millis(*rng.pick(&[1u64, 5, 30, 300]));
            e.run_for(gap).await;
        }
        e.quiesce().await;
        rep.evaluations += 1;
        rep.count("wire_scenarios");
        // every TALKREQ the handler delivered and the application answered
        let mut delivered = 0u64;
        for (k, t) in e.trace.iter().enumerate() {
            let Ev::AppResponse { peer_addr, id } = &t.ev else { continue };
            // was it a TALK request?
            let is_talk = e.trace[..k].iter().rev().any(|u| matches!(&u.ev, Ev::Out(HandlerOut::Request(na, r)) if na.socket_addr == *peer_addr && r.id.0 == *id && matches!(r.body, RequestBody::Talk { .. })));
            if !is_talk {
                continue;
            }
            delivered += 1;
            rep.count("wire_talk_requests_answered_by_application");
            let on_wire = e.trace[k..].iter().filter(|u| matches!(&u.ev, Ev::Sent { to, class: OutClass::Message { msg: Some(RefMessage::TalkResp { id: rid, .. }), .. }, .. } if to == peer_addr && rid == id)).count();
            let awaiting = !with_enr && ignores;
            if on_wire != 1 {
                rep.violation(if on_wire == 0 { "C20:no-response-on-the-wire" } else { "C20:second-response-on-the-wire" }, format!("TALKREQ#{} was delivered and answered by the application; {on_wire} TALKRESP datagrams left for {peer_addr} (session dialled without record: {}, its record request unanswered: {ignores})", hx(id), !with_enr), json!({"scenario_seed": seed.to_string(), "variant": "wire", "trace": e.dump_trace(30)}));
            }
            if awaiting {
                rep.count("wire_talk_answered_on_session_awaiting_record");
            }
        }
        rep.fingerprint(&("wire", with_enr, ignores, dial_kind, delivered.min(5)));
    });
}

pub fn run(p: &Params) -> Report {
    let mut rep = Report::new("C20");
    if let Some(r) = &p.replay {
        if super::sys::replay(r, &mut rep) {
            return rep;
        }
    }
    if let Some(r) = &p.replay {
        let seed: u64 = r["replay"]["scenario_seed"].as_str().unwrap().parse().unwrap();
        if r["replay"]["variant"] == "wire" {
            scenario_wire(seed, &mut rep);
        } else if r["replay"]["variant"] == "multi-thread" {
            scenario_mt(seed, &mut rep);
        } else {
            scenario(seed, &mut rep);
        }
        return rep;
    }
    let w = p.budget(3_200, 200_000);
    for i in 0..w {
        let seed = p.shard_seed(0x2E_0000 + i);
        crate::util::guarded(&mut rep, seed, |rep| scenario_wire(seed, rep));
    }
    let n = p.budget(6_000, 400_000);
    for i in 0..n {
        let seed = p.shard_seed(0x20_0000 + i);
        crate::util::guarded(&mut rep, seed, |rep| scenario(seed, rep));
    }
    let m = p.budget(48, 3_000);
    for i in 0..m {
        scenario_mt(p.shard_seed(0x2F_0000 + i), &mut rep);
    }
    // full stack: an unmodified Discv5 inside a simulated network, judged on the wire and the API
    super::sys::run_mixed(p, super::sys::Focus::C20, 0x5C20_0000, 1600, 100000, &mut rep);
    rep
}
