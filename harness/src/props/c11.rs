//! C11 — NODES responses are validated; honest peers are never banned.
//!
//! R2 rig. *Honest half*: the lookup request of a real service V to responder R is relayed to a
//! second real service playing R (own routing table with records up to 300 bytes, full buckets,
//! V's own record) and R's NODES packets are relayed back unchanged (shuffled). Targets are
//! crafted so that log2(target xor R) takes every value 0..256. Oracle: R is not banned and the
//! records that surface (`Event::Discovered`) are exactly those R sent, minus V's own record.
//!
//! *Malicious half*: the harness answers as R with scripted packets (off-distance records mixed
//! into correct ones, V's own record, a foreign record for a [0] request, duplicate packets,
//! totals 0, 1, 2, 15, 16, 17, 2^64-1, totals changing mid-stream, packets after completion),
//! passed through a model of what a real handler lets through. Oracle: banned iff a processed
//! packet carried an off-distance record; surfaced records are on-distance records of at most 15
//! packets; packets after completion change nothing.

use super::kb::{self, Id};
use crate::peer::peersim::{build_enr, signing_key, EnrAddr};
use crate::peer::rlp_ref;
use crate::rig::r1::v4;
use crate::rig::r2::{runtime, Mode, ServiceCfg, ServiceRig, LOCAL_V4};
use crate::util::{hx, Params, Report, Rng};
use discv5::enr::NodeId;
use discv5::verif::{ban_list_snapshot, ConnectionDirection, HandlerIn, HandlerOut, Request, RequestBody, Response, ResponseBody};
use discv5::{Enr, Event, NodeAddress, RequestError, RequestId};
use serde_json::{json, Value};
use std::collections::HashSet;
use std::net::SocketAddr;

pub struct Pool {
    pub enrs: Vec<Enr>,
}

pub fn pool(rng: &mut Rng, n: usize) -> Pool {
    let mut enrs = Vec::new();
    for i in 0..n {
        let sk = signing_key(rng);
        let a = v4(10, 8, (i / 200) as u8, 1 + (i % 200) as u8, 9000 + i as u16);
        let e = if i % 4 == 0 {
            crate::peer::peersim::record_of_size(&sk, 1 + rng.below(5), Some(a), 300 - (i % 3)).unwrap_or_else(|| build_enr(&sk, 1, EnrAddr::Socket(a), None))
        } else {
            build_enr(&sk, 1 + rng.below(5), EnrAddr::Socket(a), if i % 3 == 0 { Some(120 + rng.usize(170)) } else { None })
        };
        enrs.push(e);
    }
    Pool { enrs }
}

fn target_at(r: &Id, d: u64, rng: &mut Rng) -> Id {
    if d == 0 {
        *r
    } else {
        kb::id_at_distance(rng, r, d)
    }
}

/// The first FINDNODE the service sends to `to` (node id), with its request id and distances.
fn find_request(msgs: &[HandlerIn], to: &Id) -> Option<(RequestId, Vec<u64>)> {
    msgs.iter().find_map(|m| match m {
        HandlerIn::Request(c, r) if c.node_id().raw() == *to => match &r.body {
            RequestBody::FindNode { distances } => Some((r.id.clone(), distances.clone())),
            _ => None,
        },
        _ => None,
    })
}

/// Fail every other request the service makes (pings, lookups to discovered nodes).
async fn fail_others(rig: &mut ServiceRig, msgs: Vec<HandlerIn>, keep: Option<&RequestId>) {
    for m in msgs {
        if let HandlerIn::Request(_, r) = m {
            if Some(&r.id) != keep {
                rig.emit(HandlerOut::RequestFailed(r.id.clone(), RequestError::Timeout)).await;
            }
        }
    }
}

fn discovered(evs: Vec<Event>) -> Vec<Vec<u8>> {
    evs.into_iter()
        .filter_map(|e| match e {
            Event::Discovered(enr) => Some(rlp_ref::encode_record(&enr)),
            _ => None,
        })
        .collect()
}

fn banned(r_id: &Id, r_addr: &SocketAddr) -> bool {
    let l = ban_list_snapshot();
    l.ban_nodes.contains_key(&NodeId::new(r_id)) || l.ban_ips.contains_key(&r_addr.ip())
}

pub fn honest(seed: u64, d: u64, pl: &Pool, rep: &mut Report) {
    let rt = runtime(seed);
    rt.block_on(async {
        let mut rng = Rng::new(seed ^ 0xC11);
        // the requester's own admission policy (table filter, address limit) has no say in what
        // counts as a well-formed answer
        let vfilter = rng.below(6);
        let v_ip_limit = rng.chance(1, 4);
        let mut v = ServiceRig::start(&mut rng, ServiceCfg { mode: Mode::Ip4, local_enr_has_addr: true, tweak: Box::new(move |b| {
            match vfilter {
                // (each of these admits the responder itself, 10.0.0.77, so that the lookup asks it)
                0 => { b.table_filter(|e: &Enr| e.ip4().is_some_and(|ip| ip.octets()[3] % 2 == 1)); }
                1 => { b.table_filter(|e: &Enr| e.ip4().is_some_and(|ip| ip.octets()[..3] == [10, 0, 0])); }
                2 => { b.table_filter(|e: &Enr| e.size() < 200); }
                _ => {}
            }
            if v_ip_limit {
                b.ip_limit();
            }
        }) }).await;
        let max_nodes = *rng.pick(&[16usize, 16, 64]);
        let mut r = ServiceRig::start(&mut rng, ServiceCfg { mode: Mode::Ip4, local_enr_has_addr: true, tweak: Box::new(move |b| {
            b.max_nodes_response(max_nodes);
        }) }).await;
        // R's record must advertise another address than V's
        let r_addr = v4(10, 0, 0, 77, 9000);
        let _ = r.discv5.update_local_enr_socket(r_addr, false);
        let r_enr = r.local_enr();
        let r_id: Id = r_enr.node_id().raw();
        let v_enr = v.local_enr();
        // R's table: a random subset of the pool, plus V itself
        let n = 5 + rng.usize(pl.enrs.len() - 5);
        for e in pl.enrs.iter().take(n) {
            let _ = r.discv5.add_enr(e.clone());
        }
        let has_v = rng.chance(2, 3);
        if has_v {
            let _ = r.discv5.add_enr(v_enr.clone());
        }
        // V knows R through an outgoing session
        v.emit(HandlerOut::Established(r_enr.clone(), r_addr, ConnectionDirection::Outgoing)).await;
        v.settle().await;
        let first = v.take_handler_in();
        fail_others(&mut v, first, None).await;
        v.settle().await;
        v.take_handler_in();
        v.take_events();
        // re-insert R (the failed ping marked it disconnected; lookups use any table entry)
        let target = target_at(&r_id, d, &mut rng);
        let fut = v.discv5.find_node(NodeId::new(&target));
        let lookup = tokio::spawn(fut);
        v.settle().await;
        let msgs = v.take_handler_in();
        let Some((req_id, distances)) = find_request(&msgs, &r_id) else {
            rep.inconclusive(format!("honest half: the lookup did not ask R (seed {seed}, d {d})"));
            return;
        };
        fail_others(&mut v, msgs, Some(&req_id)).await;
        rep.evaluations += 1;
        rep.count("honest_exchanges");
        // relay to the real responder
        let v_na = NodeAddress::new(LOCAL_V4, v.local_id);
        r.take_handler_in();
        r.emit(HandlerOut::Request(v_na.clone(), Box::new(Request { id: req_id.clone(), body: RequestBody::FindNode { distances: distances.clone() } }))).await;
        r.settle().await;
        let mut packets: Vec<Response> = r.take_handler_in().into_iter().filter_map(|m| match m {
            HandlerIn::Response(to, resp) if to == v_na => Some(*resp),
            _ => None,
        }).collect();
        rng.shuffle(&mut packets);
        let sent: Vec<Vec<u8>> = packets.iter().flat_map(|p| match &p.body {
            ResponseBody::Nodes { nodes, .. } => nodes.iter().map(rlp_ref::encode_record).collect::<Vec<_>>(),
            _ => vec![],
        }).collect();
        let r_na = NodeAddress::new(r_addr, NodeId::new(&r_id));
        let npackets = packets.len();
        for p in packets {
            v.emit(HandlerOut::Response(r_na.clone(), Box::new(p))).await;
            v.settle().await;
        }
        let surfaced: HashSet<Vec<u8>> = discovered(v.take_events()).into_iter().collect();
        let v_rec = rlp_ref::encode_record(&v_enr);
        let want: HashSet<Vec<u8>> = sent.iter().filter(|r| **r != v_rec).cloned().collect();
        let w = json!({"scenario_seed": seed.to_string(), "half": "honest", "log2_distance_target_responder": d, "requested_distances": distances, "packets": npackets, "records_sent": sent.len(), "responder_table_has_requester": has_v, "records_surfaced": surfaced.len()});
        if banned(&r_id, &r_addr) {
            let own = sent.contains(&rlp_ref::encode_record(&r_enr));
            rep.violation(if own { "C11:honest-responder-banned:own-record" } else { "C11:honest-responder-banned" }, format!("a responder that answered as this implementation prescribes was banned (requested distances {distances:?})"), w.clone());
        }
        // V stops incorporating once it holds its own maximum (16 records): all records must
        // surface only when the answer is within that cap; otherwise a subset of it must.
        if !surfaced.is_subset(&want) {
            rep.violation("C11:honest-records-not-accepted-exactly", format!("{} records surfaced that the honest responder did not send", surfaced.difference(&want).count()), w.clone());
        } else if want.len() <= 16 && npackets <= 15 && surfaced != want {
            rep.violation("C11:honest-records-not-accepted-exactly", format!("{} records of an honest answer did not surface", want.difference(&surfaced).count()), w.clone());
        }
        if sent.len() > 0 {
            rep.count("honest_exchanges_with_records");
        }
        if distances.contains(&0) {
            rep.count("honest_exchanges_requesting_distance_0");
        }
        rep.fingerprint(&("honest", d, npackets.min(8), has_v, vfilter.min(3), v_ip_limit));
        // finish the lookup
        for _ in 0..40 {
            let msgs = v.take_handler_in();
            if msgs.is_empty() && lookup.is_finished() {
                break;
            }
            fail_others(&mut v, msgs, None).await;
            v.settle().await;
        }
        lookup.abort();
        if rep.want_sample() && npackets > 1 {
            rep.sample(w);
        }
    });
}

/// Is the responder banned *now*: listed, and the entry has not run out (entries that ran out
/// stay in the list until the handler's periodic purge).
fn banned_now(r_id: &Id, r_addr: &SocketAddr) -> bool {
    let l = ban_list_snapshot();
    let now = std::time::Instant::now();
    let live = |e: Option<&Option<std::time::Instant>>| match e {
        Some(None) => true,
        Some(Some(t)) => *t > now,
        None => false,
    };
    live(l.ban_nodes.get(&NodeId::new(r_id))) || live(l.ban_ips.get(&r_addr.ip()))
}

/// A responder lies, is banned for a short time, the ban runs out (wall clock; the list is only
/// purged every few minutes), and it lies again: it must be banned again.
pub fn reoffence(seed: u64, pl: &Pool, rep: &mut Report) {
    let rt = runtime(seed);
    rt.block_on(async {
        let mut rng = Rng::new(seed ^ 0x0FF2);
        let ban_ms = 20 + rng.below(30);
        // bans of this node are timed (20-50 ms), or permanent (no duration configured)
        let permanent = rng.chance(1, 3);
        let mut v = ServiceRig::start(&mut rng, ServiceCfg { mode: Mode::Ip4, local_enr_has_addr: true, tweak: Box::new(move |b| {
            b.ban_duration(if permanent { None } else { Some(std::time::Duration::from_millis(ban_ms)) });
        }) }).await;
        let r_sk = signing_key(&mut rng);
        let r_addr = v4(10, 0, 0, 79, 9000);
        let r_enr = build_enr(&r_sk, 2, EnrAddr::Socket(r_addr), None);
        let r_id: Id = r_enr.node_id().raw();
        v.emit(HandlerOut::Established(r_enr.clone(), r_addr, ConnectionDirection::Outgoing)).await;
        v.settle().await;
        let first = v.take_handler_in();
        fail_others(&mut v, first, None).await;
        v.settle().await;
        v.take_handler_in();
        v.take_events();
        let r_na = NodeAddress::new(r_addr, NodeId::new(&r_id));
        let dist_of = |e: &Enr| kb::log2(&r_id, &e.node_id().raw());
        let mut offences = 0;
        let mut log: Vec<Value> = Vec::new();
        // the application may have put its own, short, ban on that peer's address earlier (a peer
        // banned by id is not asked by lookups at all)
        let user_ban = rng.chance(1, 2);
        if user_ban {
            let short = Some(std::time::Duration::from_millis(10 + rng.below(30)));
            v.discv5.ban_ip(r_addr.ip(), short);
            rep.count("reoffence_cases_with_an_earlier_ban_by_the_application");
        }
        for round in 0..2 {
            let d = 256 - rng.below(3);
            let target = target_at(&r_id, d, &mut rng);
            let lookup = tokio::spawn(v.discv5.find_node(NodeId::new(&target)));
            v.settle().await;
            let msgs = v.take_handler_in();
            let Some((req_id, distances)) = find_request(&msgs, &r_id) else {
                rep.count(if permanent { "reoffence_round_without_request_permanent" } else { "reoffence_round_without_request_timed" });
                lookup.abort();
                break;
            };
            fail_others(&mut v, msgs, Some(&req_id)).await;
            let Some(off) = pl.enrs.iter().find(|e| !distances.contains(&dist_of(e))) else {
                lookup.abort();
                break;
            };
            let t_before = std::time::Instant::now();
            v.emit(HandlerOut::Response(r_na.clone(), Box::new(Response { id: req_id.clone(), body: ResponseBody::Nodes { total: 1, nodes: vec![off.clone()] } }))).await;
            v.settle().await;
            offences += 1;
            let listed = banned(&r_id, &r_addr);
            // in force = the entry runs out after the moment this offence was delivered (judged
            // against that moment, not against "now", so that a stalled process cannot matter)
            let live = {
                let l = ban_list_snapshot();
                // ... and it lasts as long as configured: for ever, or (with 5 ms of slack for the
                // time between delivery and the ban) the configured duration from this offence on
                let ok = |e: Option<&Option<std::time::Instant>>| match e {
                    Some(None) => true,
                    Some(Some(t)) => !permanent && *t + std::time::Duration::from_millis(5) > t_before + std::time::Duration::from_millis(ban_ms),
                    None => false,
                };
                ok(l.ban_nodes.get(&NodeId::new(&r_id))) && ok(l.ban_ips.get(&r_addr.ip()))
            };
            log.push(json!({"round": round, "requested_distances": distances, "listed_after": listed, "ban_in_force_after": live}));
            if !live {
                rep.violation(if round == 0 { "C11:off-distance-responder-not-banned" } else { "C11:off-distance-responder-not-banned-again" }, format!("a responder returned an off-distance record ({}) and no ban of the configured length (by id and by IP) is in force afterwards (listed: {listed})", if round == 0 { "first offence" } else { "second offence, after its first ban had run out" }), json!({"scenario_seed": seed.to_string(), "half": "reoffence", "ban_ms": ban_ms, "permanent": permanent, "earlier_ban_by_application": user_ban, "log": log}));
            }
            for _ in 0..20 {
                let more = v.take_handler_in();
                if more.is_empty() && lookup.is_finished() {
                    break;
                }
                fail_others(&mut v, more, None).await;
                v.settle().await;
            }
            lookup.abort();
            if round == 0 {
                // let the ban run out on the wall clock; nothing purges the list meanwhile
                if permanent {
                    // a permanent ban does not run out: the second round needs the list cleared
                    v.discv5.ban_node_remove(&NodeId::new(&r_id));
                    v.discv5.ban_ip_remove(&r_addr.ip());
                    std::thread::sleep(std::time::Duration::from_millis(25));
                } else {
                    std::thread::sleep(std::time::Duration::from_millis(ban_ms + 15));
                }
            }
        }
        rep.evaluations += 1;
        if offences == 2 {
            rep.count("reoffence_after_ban_expiry");
        }
        rep.fingerprint(&("reoffence", offences, ban_ms / 10));
    });
}

pub fn malicious(seed: u64, pl: &Pool, rep: &mut Report) {
    let rt = runtime(seed);
    rt.block_on(async {
        let mut rng = Rng::new(seed ^ 0xBAD);
        // the requester's own max_nodes_response bounds the records it collects; the packet cap
        // (15) must not depend on it
        let vmax = *rng.pick(&[16usize, 16, 16, 64, 4]);
        let mut v = ServiceRig::start(&mut rng, ServiceCfg { mode: Mode::Ip4, local_enr_has_addr: true, tweak: Box::new(move |b| {
            b.max_nodes_response(vmax);
        }) }).await;
        let r_sk = signing_key(&mut rng);
        let r_addr = v4(10, 0, 0, 78, 9000);
        let r_enr = build_enr(&r_sk, 2, EnrAddr::Socket(r_addr), None);
        let r_id: Id = r_enr.node_id().raw();
        let v_enr = v.local_enr();
        v.emit(HandlerOut::Established(r_enr.clone(), r_addr, ConnectionDirection::Outgoing)).await;
        v.settle().await;
        let first = v.take_handler_in();
        fail_others(&mut v, first, None).await;
        v.settle().await;
        v.take_handler_in();
        v.take_events();
        // request distances: mostly the top classes, where the pool has records
        let d = match rng.below(6) {
            0 => 0,
            1 => 1 + rng.below(3),
            _ => 256 - rng.below(4),
        };
        let target = target_at(&r_id, d, &mut rng);
        let lookup = tokio::spawn(v.discv5.find_node(NodeId::new(&target)));
        v.settle().await;
        let msgs = v.take_handler_in();
        let Some((req_id, distances)) = find_request(&msgs, &r_id) else {
            rep.inconclusive(format!("malicious half: the lookup did not ask R (seed {seed})"));
            return;
        };
        fail_others(&mut v, msgs, Some(&req_id)).await;
        rep.evaluations += 1;
        rep.count("malicious_exchanges");
        let dist_of = |e: &Enr| kb::log2(&r_id, &e.node_id().raw());
        let on: Vec<&Enr> = pl.enrs.iter().filter(|e| distances.contains(&dist_of(e))).collect();
        let off: Vec<&Enr> = pl.enrs.iter().filter(|e| !distances.contains(&dist_of(e))).collect();
        let v_on = distances.contains(&dist_of(&v_enr));
        let r_na = NodeAddress::new(r_addr, NodeId::new(&r_id));
        // ---- script ----
        let npackets = match rng.below(4) {
            0 => 1,
            1 => 2 + rng.usize(4),
            _ => 1 + rng.usize(22),
        };
        let base_total = if npackets > 8 && rng.chance(2, 3) {
            *rng.pick(&[17u64, 30, u64::MAX, u64::MAX, npackets as u64])
        } else {
            *rng.pick(&[0u64, 1, 2, 2, 3, 15, 16, 17, u64::MAX, npackets as u64, npackets as u64])
        };
        let honest_script = rng.chance(1, 3);
        let vary_totals = rng.chance(1, 5);
        let mut on_i = 0usize;
        let mut off_i = rng.usize(off.len().max(1));
        let mut script: Vec<(u64, Vec<Enr>, bool)> = Vec::new(); // total, records, contains off-distance
        for k in 0..npackets {
            let total = if vary_totals && rng.chance(1, 3) { *rng.pick(&[0u64, 1, 2, 16, u64::MAX]) } else { base_total };
            let mut recs: Vec<Enr> = Vec::new();
            let mut has_off = false;
            let nrec = match rng.below(5) {
                0 => 0,
                _ => 1 + rng.usize(3),
            };
            for _ in 0..nrec {
                match rng.below(10) {
                    0 if !honest_script && !off.is_empty() => {
                        recs.push(off[off_i % off.len()].clone());
                        off_i += 1;
                        has_off = true;
                    }
                    1 if !honest_script => {
                        recs.push(v_enr.clone());
                        if !v_on {
                            has_off = true;
                        }
                    }
                    2 => {
                        recs.push(r_enr.clone());
                        if !distances.contains(&0) {
                            has_off = true;
                        }
                    }
                    _ => {
                        if on_i < on.len() {
                            recs.push(on[on_i].clone());
                            on_i += 1;
                        }
                    }
                }
            }
            if k > 0 && rng.chance(1, 10) {
                // duplicate of the previous packet
                let prev = script[k - 1].clone();
                script.push(prev);
            } else {
                script.push((total, recs, has_off));
            }
        }
        // ---- deliver through the handler model ----
        let mut remaining: Option<u64> = None;
        let mut handler_done = false;
        let mut processed: Vec<usize> = Vec::new(); // indices of packets the service received
        let mut completed_at: Option<usize> = None; // number of processed packets when records surfaced
        let mut surfaced: Vec<Vec<u8>> = Vec::new();
        let mut ban_after_completion = false;
        let mut late_effects = 0usize;
        let mut banned_at_completion = false;
        let mut log: Vec<Value> = Vec::new();
        for (k, (total, recs, has_off)) in script.iter().enumerate() {
            if handler_done {
                break;
            }
            // what a real handler does with this packet
            if *total > 1 {
                match remaining {
                    None => remaining = Some(total - 1),
                    Some(rem) => {
                        remaining = Some(rem.saturating_sub(1));
                        if rem <= 1 {
                            handler_done = true;
                        }
                    }
                }
            } else {
                handler_done = true;
            }
            let was_banned = banned(&r_id, &r_addr);
            v.emit(HandlerOut::Response(r_na.clone(), Box::new(Response { id: req_id.clone(), body: ResponseBody::Nodes { total: *total, nodes: recs.clone() } }))).await;
            v.settle().await;
            processed.push(k);
            let new = discovered(v.take_events());
            log.push(json!({"packet": k, "total": total.to_string(), "records": recs.len(), "has_off_distance": has_off, "surfaced_now": new.len(), "banned_after": banned(&r_id, &r_addr)}));
            if completed_at.is_some() {
                if !new.is_empty() {
                    late_effects += new.len();
                }
                if !was_banned && banned(&r_id, &r_addr) {
                    ban_after_completion = true;
                }
            } else if !new.is_empty() {
                completed_at = Some(processed.len());
                banned_at_completion = banned(&r_id, &r_addr);
                surfaced = new;
            }
            // the lookup goes on with other nodes: fail those requests
            let more = v.take_handler_in();
            fail_others(&mut v, more, Some(&req_id)).await;
        }
        let w = json!({"scenario_seed": seed.to_string(), "half": "malicious", "requested_distances": distances, "requester_max_nodes_response": vmax, "script": log, "completed_after_packets": completed_at});
        // Completion model for scripts with a constant total T: the request completes with the
        // packet that reaches min(T, 15), or earlier once the requester's max_nodes_response records have been collected.
        let model_complete: Option<usize> = if vary_totals {
            None
        } else {
            let mut acc = 0usize;
            let mut done = None;
            for (k, (total, recs, _)) in script.iter().enumerate().take(processed.len()) {
                let n = k + 1;
                if *total <= 1 || n as u64 >= (*total).min(15) || acc >= vmax {
                    done = Some(n);
                    break;
                }
                acc += recs.iter().filter(|e| {
                    let is_self = e.node_id().raw() == r_id;
                    if is_self { distances.contains(&0) } else { distances.contains(&dist_of(e)) }
                }).count();
            }
            done
        };
        // (1) ban rule
        let is_banned_now = banned(&r_id, &r_addr);
        let only_zero = distances == vec![0];
        let upto = match (model_complete, completed_at) {
            (Some(m), _) => m,
            (None, Some(c)) => c,
            (None, None) => processed.len(),
        };
        let off_seen = script[..upto.min(script.len())].iter().any(|p| p.2);
        if !vary_totals {
            if off_seen && !is_banned_now && model_complete.is_some() {
                rep.violation("C11:off-distance-responder-not-banned", "a responder returned a record at a distance that was not requested and was not banned".into(), w.clone());
            }
            if !off_seen && !only_zero && is_banned_now && !script[..processed.len()].iter().any(|p| p.2) {
                rep.violation("C11:responder-banned-without-off-distance-record", "a responder was banned although every record it returned was at a requested distance".into(), w.clone());
            }
            if let (Some(m), false) = (model_complete, off_seen) {
                // a later off-distance packet (after completion) must not ban
                if is_banned_now && !only_zero && script[m.min(script.len())..processed.len().max(m).min(script.len())].iter().any(|p| p.2) {
                    rep.violation("C11:packet-after-completion-had-effect", "a NODES packet for an already completed request banned the responder".into(), w.clone());
                }
            }
        }
        let _ = banned_at_completion;
        if off_seen {
            rep.count("scripts_with_off_distance_record");
        }
        // (2) surfaced records: on-distance records of at most 15 packets
        let v_rec = rlp_ref::encode_record(&v_enr);
        let mut allowed: HashSet<Vec<u8>> = HashSet::new();
        let mut packet_of: Vec<(usize, Vec<u8>)> = Vec::new();
        for (k, (_, recs, _)) in script.iter().enumerate().take(upto) {
            for e in recs {
                let d = dist_of(e);
                let is_self = e.node_id().raw() == r_id;
                let ok = if is_self { distances.contains(&0) } else { distances.contains(&d) };
                let raw = rlp_ref::encode_record(e);
                if ok && raw != v_rec {
                    allowed.insert(raw.clone());
                    packet_of.push((k, raw));
                }
            }
        }
        if let Some(m) = model_complete {
            if m <= processed.len() {
                let surfaced_set: HashSet<Vec<u8>> = surfaced.iter().cloned().collect();
                if surfaced_set != allowed {
                    rep.violation("C11:records-not-accepted-exactly", format!("{} on-distance records of the packets up to completion did not surface, {} others did", allowed.difference(&surfaced_set).count(), surfaced_set.difference(&allowed).count()), w.clone());
                } else {
                    rep.count("exact_acceptance_checks");
                }
            }
        }
        for s in &surfaced {
            if !allowed.contains(s) {
                rep.violation("C11:off-distance-record-accepted", "a record at a distance that was not requested (or from a packet after completion) was accepted".into(), w.clone());
                break;
            }
        }
        let packets_incorporated: HashSet<usize> = packet_of.iter().filter(|(_, raw)| surfaced.contains(raw)).map(|(k, _)| *k).collect();
        rep.max("packets_incorporated", packets_incorporated.len() as u64);
        if packets_incorporated.len() > 15 || packets_incorporated.iter().any(|k| *k >= 15) {
            rep.violation("C11:more-than-15-packets-collected", format!("records of {} packets (highest packet index {}) were incorporated for one request", packets_incorporated.len(), packets_incorporated.iter().max().unwrap()), w.clone());
        }
        if processed.len() > 15 {
            rep.count("scripts_longer_than_15_packets");
        }
        // (3) packets after completion change nothing
        if completed_at.is_some() && processed.len() > upto {
            rep.count("scripts_with_packets_after_completion");
            if late_effects > 0 || ban_after_completion {
                rep.violation("C11:packet-after-completion-had-effect", "a NODES packet for an already completed request changed the ban list or surfaced records".into(), w.clone());
            }
        }
        rep.fingerprint(&("mal", distances.clone(), npackets.min(20), base_total.min(20), off_seen, completed_at.is_some(), processed.len().min(20), vmax));
        lookup.abort();
        if rep.want_sample() && processed.len() > 3 {
            rep.sample(w);
        }
    });
}

pub fn run(p: &Params) -> Report {
    let mut rep = Report::new("C11");
    if let Some(r) = &p.replay {
        if super::sys::replay(r, &mut rep) {
            return rep;
        }
    }
    let mut prng = Rng::new(p.shard_seed(11));
    let pl = pool(&mut prng, 64);
    if let Some(r) = &p.replay {
        let seed: u64 = r["replay"]["scenario_seed"].as_str().unwrap().parse().unwrap();
        if r["replay"]["half"] == "reoffence" {
            reoffence(seed, &pl, &mut rep);
        } else if r["replay"]["half"] == "honest" {
            let d = r["replay"]["log2_distance_target_responder"].as_u64().unwrap_or(256);
            honest(seed, d, &pl, &mut rep);
        } else {
            malicious(seed, &pl, &mut rep);
        }
        return rep;
    }
    // honest half: every distance class 0..=256, `reps` tables each, spread over the shards
    let reps = ((if p.is_quick() { 2.0 } else { 40.0 }) * p.scale).ceil() as u64;
    let mut k = 0u64;
    for rep_i in 0..reps {
        for d in 0..=256u64 {
            if k % p.nshards == p.shard {
                let seed = p.shard_seed(0x11_0000 + rep_i * 1000 + d);
                crate::util::guarded(&mut rep, seed, |rep| honest(seed, d, &pl, rep));
            }
            k += 1;
        }
    }
    // extra weight on the classes where responders actually hold records, and on the low ones
    let extra = p.budget(400, 40_000);
    let mut drng = Rng::new(p.shard_seed(0x11D));
    for i in 0..extra {
        let d = *drng.pick(&[256u64, 256, 255, 255, 254, 253, 252, 251, 250, 2, 1, 1, 0]);
        let seed = p.shard_seed(0x11E_0000 + i);
        crate::util::guarded(&mut rep, seed, |rep| honest(seed, d, &pl, rep));
    }
    let n = p.budget(4_000, 300_000);
    for i in 0..n {
        let seed = p.shard_seed(0x1B_0000 + i);
        crate::util::guarded(&mut rep, seed, |rep| malicious(seed, &pl, rep));
    }
    // a liar whose ban ran out lies again (wall-clock sleeps of 35-65 ms each: kept small)
    let ro = p.budget(320, 16_000);
    for i in 0..ro {
        let seed = p.shard_seed(0x1C_0000 + i);
        crate::util::guarded(&mut rep, seed, |rep| reoffence(seed, &pl, rep));
    }
    rep.extra.insert("exhaustive_subspaces".into(), json!(["honest half: every log2 distance class 0..256 between lookup target and responder"]));
    // full stack: lookups through a simulated network in which a few responders slip in a record
    // at an unrequested distance; honest responders must never end up banned
    super::sys::run_lookups(p, super::sys::Focus::C11, 0x5C11_0000, 1600, 100_000, &mut rep);
    rep
}
