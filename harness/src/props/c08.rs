//! C08 — closest-node and distance lookups are exact.
//!
//! Oracle: `closest_keys / closest_values / closest_values_predicate (target)` must equal the
//! full scan (`iter_ref`, which never mutates) sorted by XOR distance to the target, computed on
//! plain byte arrays. Ids are distinct, so sequence equality also decides exactly-once.
//! `nodes_by_distances` is compared with the set of stored nodes at the requested distances.

use super::kb::{self, Id, IdPool};
use crate::util::{hx, Params, Report, Rng};
use discv5::enr::NodeId;
use discv5::kbucket::KBucketsTable;
use serde_json::json;
use std::collections::BTreeSet;
use std::time::Duration;

type Table = KBucketsTable<NodeId, u64>;

fn scan(table: &Table) -> Vec<(Id, u64)> {
    table
        .iter_ref()
        .map(|e| (e.node.key.preimage().raw(), *e.node.value))
        .collect()
}

fn sorted_by_distance(mut v: Vec<(Id, u64)>, target: &Id) -> Vec<(Id, u64)> {
    v.sort_by(|a, b| kb::xor(&a.0, target).cmp(&kb::xor(&b.0, target)));
    v
}

fn classify(got: &[Id], want: &[Id]) -> &'static str {
    let set: BTreeSet<&Id> = got.iter().collect();
    if set.len() != got.len() {
        "C08:closest-duplicate"
    } else if got.len() != want.len() || want.iter().any(|w| !set.contains(w)) {
        "C08:closest-missing-or-extra"
    } else {
        "C08:closest-order"
    }
}

fn build_table(rng: &mut Rng, pool: &IdPool, timeout: Duration) -> Table {
    let mut table: Table = KBucketsTable::new(kb::key(&pool.local), timeout, 16, None, None);
    let nops = 40 + rng.usize(400);
    let mut ver = 0u64;
    for _ in 0..nops {
        let id = pool.any_id(rng);
        ver += 1;
        match rng.below(10) {
            0..=5 => {
                let _ = table.insert_or_update(&kb::key(&id), ver, kb::status(rng.bool(), rng.bool()));
            }
            6 => {
                let _ = table.update_node_status(
                    &kb::key(&id),
                    if rng.bool() {
                        discv5::ConnectionState::Connected
                    } else {
                        discv5::ConnectionState::Disconnected
                    },
                    None,
                );
            }
            7 => {
                let _ = table.update_node(&kb::key(&id), ver, None);
            }
            8 => {
                table.remove(&kb::key(&id));
            }
            _ => {
                let _ = table.take_applied_pending();
            }
        }
    }
    table
}

/// Leaves one bucket with a pending candidate that the *next* table access will have to deal
/// with: the bucket is filled, a further connected node becomes its pending candidate, and
/// (optionally) a stored node is removed so that the candidate faces a free slot. With a zero
/// pending timeout the candidate is due at once; nothing touches the bucket afterwards.
/// Returns the bucket's log2 distance.
fn stir(rng: &mut Rng, table: &mut Table, pool: &IdPool, free_a_slot: bool, timeout: Duration) -> Option<u64> {
    let candidates: Vec<&(u64, Vec<Id>)> = pool.buckets.iter().filter(|(_, ids)| ids.len() >= 17).collect();
    if candidates.is_empty() {
        return None;
    }
    let (d, ids) = *rng.pick(&candidates);
    let stored: BTreeSet<Id> = scan(table).into_iter().map(|(i, _)| i).filter(|i| kb::log2(i, &pool.local) == *d).collect();
    let mut have = stored.len();
    // (a plain loop: the iterator-adapter form of this line makes the AddressSanitizer build of
    // the nightly compiler report a stack-use-after-scope inside the standard library's own
    // `collect`, in safe code, which ends the sanitizer pass before it observed anything)
    let mut spare: Vec<Id> = Vec::with_capacity(ids.len());
    for i in ids.iter() {
        if !stored.contains(i) {
            spare.push(*i);
        }
    }
    // fill with disconnected nodes (a full bucket needs a disconnected node to take a candidate)
    while have < 16 {
        let id = spare.pop()?;
        if let discv5::kbucket::InsertResult::Inserted = table.insert_or_update(&kb::key(&id), rng.next_u64() >> 8, kb::status(false, rng.bool())) {
            have += 1;
        }
    }
    let cand = spare.pop()?;
    let r = table.insert_or_update(&kb::key(&cand), rng.next_u64() >> 8, kb::status(true, false));
    if !matches!(r, discv5::kbucket::InsertResult::Pending { .. }) {
        return Some(*d);
    }
    if free_a_slot {
        let victim = *scan(table).iter().map(|(i, _)| i).find(|i| kb::log2(i, &pool.local) == *d && **i != cand)?;
        table.remove(&kb::key(&victim));
    }
    if timeout > Duration::ZERO {
        // the candidate (still waiting, possibly next to a free slot by now) becomes due
        std::thread::sleep(timeout + Duration::from_millis(1));
    }
    Some(*d)
}

fn targets(rng: &mut Rng, pool: &IdPool, stored: &[(Id, u64)], p: &Params) -> Vec<(Id, &'static str)> {
    let local = pool.local;
    let mut t: Vec<(Id, &'static str)> = vec![(local, "local")];
    let nstored = if p.is_quick() { 6 } else { 24 };
    for _ in 0..nstored.min(stored.len()) {
        t.push((rng.pick(stored).0, "stored"));
    }
    // xor-differences: single bits, 2^k-1, 2^k+1, random with random low bits
    let bits: Vec<usize> = if p.is_quick() {
        let mut b: Vec<usize> = (0..8).collect();
        for _ in 0..24 {
            b.push(rng.usize(256));
        }
        b
    } else {
        (0..256).collect()
    };
    for k in bits {
        let mut d = [0u8; 32];
        d[31 - k / 8] |= 1 << (k % 8);
        t.push((kb::xor(&local, &d), "single-bit"));
        // 2^k - 1 : all bits below k
        let mut m = [0u8; 32];
        for bit in 0..k {
            m[31 - bit / 8] |= 1 << (bit % 8);
        }
        if k > 0 {
            t.push((kb::xor(&local, &m), "2^k-1"));
        }
        // 2^k + 1
        let mut q = d;
        q[31] |= 1;
        t.push((kb::xor(&local, &q), "2^k+1"));
    }
    let nrand = if p.is_quick() { 20 } else { 120 };
    for _ in 0..nrand {
        let dist = rng.range(1, 256);
        t.push((kb::id_at_distance(rng, &local, dist), "random"));
    }
    for _ in 0..8 {
        t.push((kb::id_from_low_bits(&local, rng.below(64) as u128), "tiny"));
    }
    t
}

pub fn scenario(seed: u64, p: &Params, rep: &mut Report) {
    let mut rng = Rng::new(seed);
    let nbuckets = 4 + rng.usize(40);
    // half of the tables have buckets that can overflow (more candidate ids than 16 slots)
    let per_bucket = if rng.bool() { 18 + rng.usize(5) } else { 4 + rng.usize(18) };
    let pool = IdPool::new(&mut rng, nbuckets, per_bucket, true);
    // pending candidates are due at once, never, or after two (real) milliseconds
    let timeout = match rng.below(3) {
        0 => Duration::ZERO,
        1 => Duration::from_secs(3600),
        _ => Duration::from_millis(2),
    };
    let mut table = build_table(&mut rng, &pool, timeout);
    let stored = scan(&table);
    let local = pool.local;
    let low_buckets = stored.iter().filter(|(id, _)| kb::log2(id, &local) <= 8).count();
    rep.count_n("stored_nodes", stored.len() as u64);
    rep.count_n("stored_in_buckets_0_7", low_buckets as u64);
    rep.max("table_size", stored.len() as u64);

    for (target, class) in targets(&mut rng, &pool, &stored, p) {
        rep.evaluations += 1;
        // now and then the lookup is the first access after a pending candidate became due
        if timeout < Duration::from_secs(1) && rng.chance(1, 4) {
            let free = rng.bool();
            if stir(&mut rng, &mut table, &pool, free, timeout).is_some() {
                rep.count("closest_with_due_pending_candidate");
            }
        }
        let tkey = kb::key(&target);
        let variant = rng.below(3);
        let got: Vec<(Id, Option<u64>, Option<bool>)> = match variant {
            0 => table
                .closest_keys(&tkey)
                .map(|k| (k.preimage().raw(), None, None))
                .collect(),
            1 => table
                .closest_values(&tkey)
                .map(|v| (v.key.preimage().raw(), Some(v.value), None))
                .collect(),
            _ => table
                .closest_values_predicate(&tkey, |v: &u64| v % 3 == 0)
                .map(|v| (v.key.preimage().raw(), Some(v.value), Some(v.predicate_match)))
                .collect(),
        };
        // full scan after the iteration: iteration may have applied pending entries
        let want = sorted_by_distance(scan(&table), &target);
        let got_ids: Vec<Id> = got.iter().map(|g| g.0).collect();
        let want_ids: Vec<Id> = want.iter().map(|w| w.0).collect();
        let dist_class = kb::log2(&local, &target);
        let bit0 = kb::xor(&local, &target)[31] & 1;
        rep.fingerprint(&(dist_class, bit0, variant, want.len().min(64) / 8));
        rep.count(&format!("target:{class}"));
        if bit0 == 1 {
            rep.count("target_distance_bit0_set");
        }
        let vname = ["closest_keys", "closest_values", "closest_values_predicate"][variant as usize];
        let replay = || {
            json!({
                "scenario_seed": seed.to_string(),
                "local": hx(&local), "target": hx(&target), "target_class": class,
                "variant": vname,
                "stored": want_ids.iter().map(|i| hx(i)).collect::<Vec<_>>(),
                "returned": got_ids.iter().map(|i| hx(i)).collect::<Vec<_>>(),
            })
        };
        if got_ids != want_ids {
            rep.violation(
                classify(&got_ids, &want_ids),
                format!(
                    "{} for target class {class} (log2 distance {dist_class}, bit0={bit0}) returned {} entries, sorted full scan has {}",
                    vname, got_ids.len(), want_ids.len()),
                replay(),
            );
            continue;
        }
        // values and predicate flags
        for (g, w) in got.iter().zip(want.iter()) {
            if let Some(v) = g.1 {
                if v != w.1 {
                    rep.violation("C08:closest-value", "value differs from stored value".into(), replay());
                }
            }
            if let Some(m) = g.2 {
                if m != (w.1 % 3 == 0) {
                    rep.violation("C08:predicate-flag", "predicate flag differs from predicate(value)".into(), replay());
                }
            }
        }
        if rep.want_sample() && class != "local" {
            rep.sample(json!({"kind": "closest", "target_class": class, "log2_distance_local_target": dist_class,
                "table_size": want.len(), "first_returned": got_ids.iter().take(3).map(|i| hx(i)).collect::<Vec<_>>() }));
        }
    }

    // nodes_by_distances
    let rounds = if p.is_quick() { 20 } else { 80 };
    for _ in 0..rounds {
        rep.evaluations += 1;
        let mut ds: Vec<u64> = Vec::new();
        let n = 1 + rng.usize(5);
        while ds.len() < n {
            let d = match rng.below(9) {
                0 => 0,
                1 => 257 + rng.below(1000),
                2 => u64::MAX - rng.below(3),
                // the distance of an occupied bucket with one high bit set: equal to it after any
                // narrowing of the integer
                3 => pool.buckets[rng.usize(pool.buckets.len())].0 + (1u64 << *rng.pick(&[8u32, 16, 24, 32, 33, 40, 48, 56, 63])),
                _ => pool.buckets[rng.usize(pool.buckets.len())].0,
            };
            if !ds.contains(&d) {
                ds.push(d);
            }
        }
        let max = *rng.pick(&[1usize, 2, 3, 15, 16, 17, 64]);
        if timeout < Duration::from_secs(1) && rng.chance(1, 2) {
            let free = rng.chance(2, 3);
            if let Some(d) = stir(&mut rng, &mut table, &pool, free, timeout) {
                rep.count("nbd_with_due_pending_candidate");
                if !ds.contains(&d) {
                    ds[0] = d;
                }
            }
        }
        let got: Vec<Id> = table
            .nodes_by_distances(&ds, max)
            .into_iter()
            .map(|e| e.node.key.preimage().raw())
            .collect();
        let eligible: Vec<Id> = scan(&table)
            .into_iter()
            .map(|(id, _)| id)
            .filter(|id| ds.contains(&kb::log2(id, &local)))
            .collect();
        rep.count("nodes_by_distances");
        rep.fingerprint(&("nbd", ds.iter().map(|d| (*d).min(300)).collect::<Vec<_>>(), max, eligible.len().min(40)));
        let replay = json!({"scenario_seed": seed.to_string(), "distances": ds.iter().map(|d| d.to_string()).collect::<Vec<_>>(), "max": max,
            "eligible": eligible.len(), "returned": got.len()});
        let got_set: BTreeSet<&Id> = got.iter().collect();
        if got_set.len() != got.len() {
            rep.violation("C08:nbd-duplicate", "nodes_by_distances returned a node twice".into(), replay.clone());
        }
        if got.iter().any(|id| !eligible.contains(id)) {
            rep.violation("C08:nbd-off-distance", "nodes_by_distances returned a node at a distance not requested (or outside 1..256)".into(), replay.clone());
        }
        let expect = eligible.len().min(max);
        if got.len() != expect {
            rep.violation("C08:nbd-count", format!("nodes_by_distances returned {} nodes, expected {expect} (eligible {}, cap {max})", got.len(), eligible.len()), replay);
        }
    }
}

pub fn run(p: &Params) -> Report {
    let mut rep = Report::new("C08");
    if let Some(r) = &p.replay {
        let seed: u64 = r["replay"]["scenario_seed"].as_str().unwrap().parse().unwrap();
        scenario(seed, p, &mut rep);
        return rep;
    }
    let n = p.budget(160, 12_000);
    for i in 0..n {
        let seed = p.shard_seed(i);
        crate::util::guarded(&mut rep, seed, |rep| scenario(seed, p, rep));
    }
    rep
}
