//! C12 — routing-table admission and update policy.
//!
//! R2 half: a real service with scripted (handler-faithful) events and user calls; after every
//! step the monitor walks the table under its lock and diffs it against the previous snapshot:
//! every entry is contactable in the IP mode, passes `config.table_filter`, is not the local id;
//! a key appears only at an `Established` for that id or an `add_enr`; a stored record changes
//! only to a record of the same id that meets the conditions, with strictly higher seq on the
//! discovered path.
//!
//! R1 half: handshakes of a spec-side peer whose record's UDP address equals / differs from (ip or
//! port) / omits the source address, v4 and v6: the real handler must report `Established`,
//! `UnverifiableEnr`, `Established` respectively.

use super::kb::{self, Id};
use crate::peer::peersim::{build_enr2, signing_key, EnrAddr};
use crate::peer::rlp_ref;
use crate::rig::engine::{Engine, Ev};
use crate::rig::r1::{runtime as rt1, v4, v6, RigConfig, Stack};
use crate::rig::r2::{runtime, Mode, ServiceCfg, ServiceRig};
use crate::util::{hx, Params, Report, Rng};
use discv5::enr::k256::ecdsa::SigningKey;
use discv5::enr::NodeId;
use discv5::verif::{ConnectionDirection, HandlerIn, HandlerOut, RequestBody, Response, ResponseBody};
use discv5::{Enr, NodeAddress, RequestError};
use serde_json::{json, Value};
use std::collections::{HashMap, HashSet};
use std::net::{IpAddr, Ipv6Addr, SocketAddr};
use std::num::NonZeroU16;

/* ----------------------------- table filters (plain fn items) ----------------------------- */

fn f_all(_: &Enr) -> bool {
    true
}
fn f_none(_: &Enr) -> bool {
    false
}
fn f_subnet(e: &Enr) -> bool {
    e.ip4().map(|ip| ip.octets()[2] % 2 == 0).unwrap_or(true)
}
fn f_custom_key(e: &Enr) -> bool {
    e.get_raw_rlp("zpad").is_none()
}
fn f_seq_parity(e: &Enr) -> bool {
    e.seq() % 2 == 1
}
const FILTERS: [(&str, fn(&Enr) -> bool); 5] = [("accept-all", f_all), ("reject-all", f_none), ("by-subnet", f_subnet), ("by-custom-key", f_custom_key), ("by-seq-parity", f_seq_parity)];

fn contactable(mode: Mode, e: &Enr) -> bool {
    let v6ok = e.udp6_socket().map(|s| !matches!(s.ip().octets(), [0, 0, 0, 0, 0, 0, 0, 0, 0, 0, 0xff, 0xff, ..])).unwrap_or(false);
    match mode {
        Mode::Ip4 => e.udp4_socket().is_some(),
        Mode::Ip6 => v6ok,
        Mode::Dual => v6ok || e.udp4_socket().is_some(),
    }
}

/// The socket a handler would observe for a node whose record it accepts.
fn session_socket(mode: Mode, e: &Enr, rng: &mut Rng) -> SocketAddr {
    let v4s = e.udp4_socket().map(SocketAddr::V4);
    let v6s = e.udp6_socket().map(SocketAddr::V6);
    match mode {
        Mode::Ip4 => v4s.unwrap_or_else(|| v4(172, 20, 0, 1 + rng.below(200) as u8, 7000)),
        Mode::Ip6 => v6s.unwrap_or_else(|| v6(900 + rng.below(50) as u16, 7000)),
        Mode::Dual => {
            if rng.bool() {
                v4s.or(v6s).unwrap_or_else(|| v4(172, 20, 1, 1, 7000))
            } else {
                v6s.or(v4s).unwrap_or_else(|| v6(950, 7000))
            }
        }
    }
}

/// a jump over more than half of the 64-bit range
const FAR: i64 = i64::MAX - 1000;

struct Node {
    sk: SigningKey,
    id: Id,
    seq: u64,
    host: u8,
    /// one record per sequence number: a node never signs two different records with one seq
    records: HashMap<u64, Enr>,
}

fn shape(rng: &mut Rng, n: &mut Node, bump: i64) -> Enr {
    // sequence numbers are 64-bit values a peer chooses freely: the far ends of the range and
    // jumps across half of it are exercised as well as small steps
    n.seq = (n.seq as i128 + bump as i128).clamp(1, u64::MAX as i128) as u64;
    if let Some(e) = n.records.get(&n.seq) {
        return e.clone();
    }
    let e = shape_new(rng, n);
    n.records.insert(n.seq, e.clone());
    e
}

fn shape_new(rng: &mut Rng, n: &mut Node) -> Enr {
    let a4 = v4(10, 20, rng.below(4) as u8, n.host, 9000 + n.host as u16);
    let a6 = v6(n.host as u16 + 1, 9100);
    let mapped = SocketAddr::new(IpAddr::V6(Ipv6Addr::new(0, 0, 0, 0, 0, 0xffff, 0x0a14, n.host as u16)), 9200);
    let (a, b) = match rng.below(6) {
        0 => (EnrAddr::None, EnrAddr::None),
        1 | 2 => (EnrAddr::Socket(a4), EnrAddr::None),
        3 => (EnrAddr::Socket(a6), EnrAddr::None),
        4 => (EnrAddr::Socket(a4), EnrAddr::Socket(a6)),
        _ => (EnrAddr::Socket(mapped), EnrAddr::None),
    };
    let pad = if rng.chance(1, 3) { Some(130 + rng.usize(40)) } else { None };
    build_enr2(&n.sk, n.seq, a, b, pad)
}

fn decoded(cache: &mut HashMap<Vec<u8>, Enr>, raw: &[u8]) -> Enr {
    if let Some(e) = cache.get(raw) {
        return e.clone();
    }
    let e = rlp_ref::decode_record(raw).expect("stored record decodes");
    cache.insert(raw.to_vec(), e.clone());
    e
}

type Snap = HashMap<Id, (Vec<u8>, bool)>; // key -> (record bytes, connected)

/// The records the table stores: its entries and, next to them, the candidates waiting in the
/// pending slots of full buckets (read through the public `buckets_iter().pending()`).
fn snapshot(rig: &ServiceRig) -> (Snap, HashSet<Id>) {
    rig.discv5.with_kbuckets(|t| {
        let t = t.read();
        let mut m: Snap = t.iter_ref().map(|e| (e.node.key.preimage().raw(), (rlp_ref::encode_record(e.node.value), e.status.is_connected()))).collect();
        let mut waiting = HashSet::new();
        for b in t.buckets_iter() {
            if let Some(p) = b.pending() {
                let id = p.value().node_id().raw();
                if !m.contains_key(&id) {
                    m.insert(id, (rlp_ref::encode_record(p.value()), p.status().is_connected()));
                    waiting.insert(id);
                }
            }
        }
        (m, waiting)
    })
}

pub fn scenario(seed: u64, rep: &mut Report) {
    let rt = runtime(seed);
    rt.block_on(async {
        let mut rng = Rng::new(seed ^ 0xC12);
        let mode = *rng.pick(&[Mode::Ip4, Mode::Ip4, Mode::Ip6, Mode::Dual]);
        let (fname, filter) = FILTERS[rng.usize(FILTERS.len())];
        let ip_limit = rng.chance(1, 4);
        // a third of the nodes are given pre-bound sockets instead of addresses to listen on
        let given_sockets = rng.chance(1, 3);
        crate::rig::r2::next_rig_listens_on_given_sockets(given_sockets);
        if given_sockets {
            rep.count("nodes_listening_on_given_sockets");
        }
        let mut rig = ServiceRig::start(&mut rng, ServiceCfg { mode, local_enr_has_addr: true, tweak: Box::new(move |b| {
            b.table_filter(filter);
            if ip_limit {
                b.ip_limit();
            }
        }) }).await;
        let local: Id = rig.local_id.raw();
        // one scenario in four is crowded: enough nodes for the farthest bucket (half of all ids)
        // to fill up, so that candidates wait in its pending slot while slots are freed and
        // sessions with them are reported again
        let crowded = rng.chance(1, 4);
        if crowded {
            rep.count("crowded_scenarios");
        }
        let mut nodes: Vec<Node> = (0..(if crowded { 70 + rng.usize(40) } else { 4 + rng.usize(10) })).map(|i| {
            let sk = signing_key(&mut rng);
            let id = build_enr2(&sk, 1, EnrAddr::None, EnrAddr::None, None).node_id().raw();
            let seq = match rng.below(8) {
                0 => u64::MAX - 8 - rng.below(40),
                1 => (1u64 << 63) - 3 + rng.below(6),
                2 => (1u64 << 32) - 3 + rng.below(6),
                _ => 1 + rng.below(6),
            };
            Node { sk, id, seq, host: 1 + i as u8, records: HashMap::new() }
        }).collect();
        // outstanding FINDNODE requests of lookups: request id -> (peer id, distances)
        let mut open_findnodes: Vec<(discv5::RequestId, NodeAddress, Vec<u64>)> = Vec::new();
        let mut open_pings: Vec<(discv5::RequestId, NodeAddress)> = Vec::new();
        let mut open_other: Vec<discv5::RequestId> = Vec::new();
        let (mut prev, _) = snapshot(&rig);
        let mut cache: HashMap<Vec<u8>, Enr> = HashMap::new();
        let mut log: Vec<Value> = Vec::new();
        let mut lookups = Vec::new();
        let nsteps = if crowded { 320 + rng.usize(160) } else { 30 + rng.usize(60) };
        let mut admitted = 0u64;
        let mut follow_up: Option<usize> = None;
        let mut replaced = 0u64;
        for step in 0..nsteps {
            // what may legitimately change in this step
            let mut may_add: Vec<Id> = Vec::new();
            let mut may_replace_session: Vec<Id> = Vec::new();
            let mut may_replace_user: Vec<Id> = Vec::new();
            let mut discovered_now: Vec<Enr> = Vec::new();
            let mut session_now: Option<(Id, SocketAddr, ConnectionDirection)> = None;
            let mut k = rng.usize(nodes.len());
            let mut aimed = false;
            // (the step after a slot was freed next to a waiting candidate: half of the time a
            // session with that candidate, dialled with an older record)
            let forced = match follow_up.take() {
                Some(j) if rng.bool() => {
                    k = j;
                    rep.count("sessions_with_a_candidate_right_after_a_slot_was_freed");
                    true
                }
                _ => false,
            };
            // (crowded: every other step is aimed at a node that waits in a pending slot)
            if crowded && !forced && rng.bool() {
                let (_, waiting) = snapshot(&rig);
                if let Some(j) = nodes.iter().position(|n| waiting.contains(&n.id)) {
                    k = j;
                    aimed = true;
                    rep.count("steps_aimed_at_a_pending_candidate");
                }
            }
            // (crowded: the table is filled first, by sessions and adds)
            let what = if forced { 0 } else if crowded && step < 160 { rng.below(42) } else { rng.below(100) };
            if what < 30 {
                // an established session (handler-faithful: the record verifies against the socket)
                let bump = *rng.pick(&[0i64, 0, 0, 1, 1, 2, 2, FAR]);
                // For an incoming session a real handler reports the newer of the attached record
                // and the one the service returned to its who-are-you query: never older than the
                // stored one. An outgoing session is reported with the record the request was
                // dialled with, which may be older than what the table has learnt meanwhile
                // (seen on the full stack).
                let dir = if rng.bool() && !forced { ConnectionDirection::Incoming } else { ConnectionDirection::Outgoing };
                let stale_dial = dir == ConnectionDirection::Outgoing && (forced || rng.chance(1, 2));
                if stale_dial {
                    rep.count("outgoing_sessions_with_possibly_stale_record");
                } else if let Some((stored, _)) = prev.get(&nodes[k].id) {
                    let stored_seq = decoded(&mut cache, stored).seq();
                    if nodes[k].seq < stored_seq {
                        nodes[k].seq = stored_seq;
                        if !nodes[k].records.contains_key(&stored_seq) {
                            let e = decoded(&mut cache, stored);
                            nodes[k].records.insert(stored_seq, e);
                        }
                    }
                }
                // A node that is not in the table may hand in an older record than the one a
                // running lookup has heard of meanwhile (the lookup learnt it after the who-are-you
                // query was answered): the session is reported with what the node handed in.
                let older = dir == ConnectionDirection::Incoming && !prev.contains_key(&nodes[k].id) && rng.chance(1, 3);
                let keep = nodes[k].seq;
                // (a dial may also have been made with a record older than anything current)
                let dialled_older = stale_dial && (forced || rng.bool());
                let back = -1 - rng.below(2) as i64;
                let enr = shape(&mut rng, &mut nodes[k], if older { -1 } else if dialled_older { back } else { bump });
                if older || dialled_older {
                    nodes[k].seq = keep;
                }
                if older {
                    rep.count("incoming_sessions_with_an_older_record_than_gossip");
                }
                let sock = session_socket(mode, &enr, &mut rng);
                session_now = Some((nodes[k].id, sock, dir));
                log.push(json!({"step": step, "ev": "Established", "node": hx(&nodes[k].id[..4]), "seq": enr.seq(), "udp4": enr.udp4_socket().map(|s| s.to_string()), "udp6": enr.udp6_socket().map(|s| s.to_string()), "socket": sock.to_string(), "dir": format!("{dir:?}")}));
                may_add.push(nodes[k].id);
                may_replace_session.push(nodes[k].id);
                rig.emit(HandlerOut::Established(enr, sock, dir)).await;
            } else if what < 42 {
                let bump = *rng.pick(&[-1i64, -1, 0, 0, 1, 1, -FAR]);
                let keep = nodes[k].seq;
                let enr = shape(&mut rng, &mut nodes[k], bump);
                if bump < 0 {
                    nodes[k].seq = keep;
                }
                let r = rig.discv5.add_enr(enr.clone());
                log.push(json!({"step": step, "ev": "add_enr", "node": hx(&nodes[k].id[..4]), "seq": enr.seq(), "result": format!("{r:?}")}));
                may_add.push(nodes[k].id);
                may_replace_user.push(nodes[k].id);
            } else if what < 50 {
                // (while a candidate waits, slots of its bucket are freed: other entries go)
                if aimed {
                    let entries: Vec<usize> = (0..nodes.len()).filter(|j| prev.contains_key(&nodes[*j].id) && nodes[*j].id != nodes[k].id && (nodes[*j].id[0] ^ local[0]) & 0x80 == (nodes[k].id[0] ^ local[0]) & 0x80).collect();
                    if !entries.is_empty() {
                        follow_up = Some(k);
                        k = *rng.pick(&entries);
                    }
                }
                let r = rig.discv5.remove_node(&NodeId::new(&nodes[k].id));
                log.push(json!({"step": step, "ev": "remove_node", "node": hx(&nodes[k].id[..4]), "result": r}));
            } else if what < 55 {
                let r = rig.discv5.disconnect_node(&NodeId::new(&nodes[k].id));
                log.push(json!({"step": step, "ev": "disconnect_node", "node": hx(&nodes[k].id[..4]), "result": r}));
            } else if what < 63 {
                let target: Id = rng.array();
                lookups.push(tokio::spawn(rig.discv5.find_node(NodeId::new(&target))));
                log.push(json!({"step": step, "ev": "find_node"}));
            } else if what < 80 && !open_findnodes.is_empty() {
                // a NODES answer to one of the lookup requests: records of known and unknown nodes
                let (rid, na, _ds) = open_findnodes.remove(rng.usize(open_findnodes.len()));
                let mut recs = Vec::new();
                for _ in 0..rng.usize(5) {
                    let j = rng.usize(nodes.len());
                    let bump = *rng.pick(&[-2i64, -2, -1, -1, 0, 0, 1, 1, 3, 3, -FAR, -FAR - 9, FAR]);
                    // do not disturb the canonical seq for lower/equal cases
                    let keep = nodes[j].seq;
                    let e = shape(&mut rng, &mut nodes[j], bump);
                    if bump <= 0 {
                        nodes[j].seq = keep;
                    }
                    recs.push(e);
                }
                // two versions of one node's record in a single answer, the newer one first
                if !recs.is_empty() && rng.chance(1, 4) {
                    let first = recs[rng.usize(recs.len())].node_id().raw();
                    if let Some(j) = nodes.iter().position(|n| n.id == first) {
                        let keep = nodes[j].seq;
                        let newer = shape(&mut rng, &mut nodes[j], 2);
                        let older = shape(&mut rng, &mut nodes[j], -1);
                        let _ = keep;
                        nodes[j].seq = newer.seq();
                        recs.push(newer);
                        recs.push(older);
                        rep.count("answers_with_two_versions_of_a_record");
                    }
                }
                if rng.chance(1, 5) {
                    recs.push(rig.local_enr());
                }
                log.push(json!({"step": step, "ev": "NODES", "from": hx(&na.node_id.raw()[..4]), "records": recs.iter().map(|e| format!("{}:seq{}", hx(&e.node_id().raw()[..4]), e.seq())).collect::<Vec<_>>()}));
                discovered_now = recs.clone();
                rig.emit(HandlerOut::Response(na, Box::new(Response { id: rid, body: ResponseBody::Nodes { total: 1, nodes: recs } }))).await;
            } else if what < 88 && !open_pings.is_empty() {
                let (rid, na) = open_pings.remove(rng.usize(open_pings.len()));
                log.push(json!({"step": step, "ev": "PONG", "from": hx(&na.node_id.raw()[..4])}));
                let small = rng.below(8);
                let pong_seq = *rng.pick(&[small, small, small, 1u64 << 63, u64::MAX]);
                rig.emit(HandlerOut::Response(na.clone(), Box::new(Response { id: rid, body: ResponseBody::Pong { enr_seq: pong_seq, ip: na.socket_addr.ip(), port: NonZeroU16::new(9000).unwrap() } }))).await;
            } else if what < 94 {
                // fail some outstanding request
                let rid = if !open_pings.is_empty() && rng.bool() {
                    Some(open_pings.remove(rng.usize(open_pings.len())).0)
                } else if !open_findnodes.is_empty() {
                    Some(open_findnodes.remove(rng.usize(open_findnodes.len())).0)
                } else {
                    open_other.pop()
                };
                if let Some(rid) = rid {
                    log.push(json!({"step": step, "ev": "RequestFailed"}));
                    rig.emit(HandlerOut::RequestFailed(rid, if rng.bool() { RequestError::Timeout } else { RequestError::InvalidRemotePacket })).await;
                }
            } else {
                let enr = shape(&mut rng, &mut nodes[k], 1);
                let sock = v4(172, 30, 0, 9, 1234);
                log.push(json!({"step": step, "ev": "UnverifiableEnr", "node": hx(&nodes[k].id[..4])}));
                rig.emit(HandlerOut::UnverifiableEnr { enr, socket: sock, node_id: NodeId::new(&nodes[k].id) }).await;
            }
            rig.settle().await;
            // requests the service made
            for m in rig.take_handler_in() {
                if let HandlerIn::Request(c, r) = m {
                    match &r.body {
                        RequestBody::FindNode { distances } => open_findnodes.push((r.id.clone(), c.node_address(), distances.clone())),
                        RequestBody::Ping { .. } => open_pings.push((r.id.clone(), c.node_address())),
                        _ => open_other.push(r.id.clone()),
                    }
                }
            }
            rig.take_events();
            // ---- the monitor ----
            rep.count("monitor_walks");
            let (now, waiting_now) = snapshot(&rig);
            if !waiting_now.is_empty() {
                rep.count("walks_with_pending_candidates");
            }
            let w = |what: &str| json!({"scenario_seed": seed.to_string(), "what": what, "ip_mode": format!("{mode:?}"), "table_filter": fname, "ip_limit": ip_limit, "log": log.iter().rev().take(12).rev().cloned().collect::<Vec<_>>()});
            for (key, (rec, _)) in &now {
                let enr = decoded(&mut cache, rec);
                if *key == local {
                    rep.violation("C12:local-id-in-table", "the local node is a routing-table entry".into(), w("local"));
                }
                if !contactable(mode, &enr) {
                    rep.violation("C12:entry-not-contactable", format!("a routing-table entry is not contactable in {mode:?}"), w("contactable"));
                }
                if !filter(&enr) {
                    rep.violation("C12:entry-fails-table-filter", format!("a routing-table entry does not pass the configured table filter ({fname})"), w("filter"));
                }
                match prev.get(key) {
                    None => {
                        admitted += 1;
                        rep.count("entries_admitted");
                        // single-stack: an incoming session admits the node with a record that
                        // names the socket its packets came from
                        if let Some((sid, sock, ConnectionDirection::Incoming)) = &session_now {
                            if sid == key && mode != Mode::Dual {
                                let named = match sock {
                                    SocketAddr::V4(_) => enr.udp4_socket().map(SocketAddr::V4),
                                    SocketAddr::V6(_) => enr.udp6_socket().map(SocketAddr::V6),
                                };
                                rep.count("admissions_by_incoming_session");
                                if named != Some(*sock) {
                                    rep.violation("C12:admitted-with-foreign-address", format!("an incoming session from {sock} admitted the node with a record that names {named:?}"), w("admission"));
                                }
                            }
                        }
                        if !may_add.contains(key) {
                            let via_nodes = discovered_now.iter().any(|e| e.node_id().raw() == *key);
                            rep.violation(if via_nodes { "C12:admitted-by-nodes-response" } else { "C12:admitted-without-session-or-add" }, "a node became a routing-table entry without an established session or an explicit add".into(), w("admission"));
                        }
                    }
                    Some((old, _)) if old != rec => {
                        replaced += 1;
                        rep.count("records_replaced");
                        let old_enr = decoded(&mut cache, old);
                        if enr.node_id().raw() != *key {
                            rep.violation("C12:record-of-other-id-stored", "a stored record was replaced by a record of another node".into(), w("replace"));
                        }
                        let by_user = may_replace_user.contains(key);
                        let by_session = may_replace_session.contains(key);
                        let by_discovery = discovered_now.iter().any(|e| rlp_ref::encode_record(e) == *rec);
                        if by_user {
                        } else if by_session {
                            if enr.seq() < old_enr.seq() {
                                rep.violation("C12:record-downgraded", "a session replaced a stored record by one with a lower sequence number".into(), w("replace"));
                            }
                        } else if by_discovery {
                            rep.count("records_replaced_by_discovery");
                            if enr.seq() <= old_enr.seq() {
                                rep.violation("C12:discovered-record-not-newer", "a record learnt from a NODES response replaced a stored record without a strictly higher sequence number".into(), w("replace"));
                            }
                            // the same answer offered an even newer record of this node that meets
                            // the same conditions: storing that one and then this one replaced a
                            // stored record by a lower sequence number
                            if !ip_limit {
                                if let Some(better) = discovered_now.iter().find(|e| e.node_id().raw() == *key && e.seq() > enr.seq() && contactable(mode, e) && filter(e)) {
                                    let first = discovered_now.iter().position(|e| rlp_ref::encode_record(e) == rlp_ref::encode_record(better));
                                    let second = discovered_now.iter().rposition(|e| rlp_ref::encode_record(e) == *rec);
                                    if first < second {
                                        rep.violation("C12:discovered-record-not-newer", format!("one NODES answer carried seq {} and then seq {} of a node: the lower one is stored at the end", better.seq(), enr.seq()), w("replace"));
                                    }
                                }
                            }
                        } else {
                            rep.violation("C12:record-replaced-without-cause", "a stored record changed without a session, an add or a discovered newer record".into(), w("replace"));
                        }
                    }
                    _ => {}
                }
            }
            prev = now;
        }
        rep.evaluations += 1;
        for l in lookups {
            l.abort();
        }
        if admitted > 0 {
            rep.fingerprint(&(format!("{mode:?}"), fname, ip_limit, admitted.min(8), replaced.min(5)));
        }
        if rep.want_sample() && replaced > 0 {
            rep.sample(json!({"scenario_seed": seed.to_string(), "ip_mode": format!("{mode:?}"), "table_filter": fname, "first_steps": log.iter().take(10).cloned().collect::<Vec<_>>()}));
        }
    });
}

/// R1 half: what the real handler reports for records whose address (mis)matches the source.
pub fn scenario_address_rule(seed: u64, rep: &mut Report) {
    let rt = rt1(seed);
    rt.block_on(async {
        let mut rng = Rng::new(seed ^ 0xADD);
        let v6mode = rng.chance(1, 3);
        let src: SocketAddr = if v6mode { v6(5, 9000) } else { v4(10, 0, 5, 5, 9000) };
        // what the record advertises relative to the source address
        let variant = rng.below(5);
        let rec_addr = match variant {
            0 => EnrAddr::Socket(src),                                                  // equal
            1 => EnrAddr::Socket(SocketAddr::new(src.ip(), src.port() + 1 + rng.below(100) as u16)), // other port
            2 => EnrAddr::Socket(if v6mode { v6(6, 9000) } else { v4(10, 0, 5, 6, 9000) }), // other ip
            3 => EnrAddr::None,                                                        // omitted
            _ => EnrAddr::Socket(if v6mode { v4(10, 0, 5, 5, 9000) } else { v6(5, 9000) }), // only the other family
        };
        let cfg = RigConfig { stack: if v6mode { Stack::V6 } else { Stack::V4 }, ..Default::default() };
        let mut e = Engine::new(seed, cfg, 1, Some(vec![src])).await;
        let seq = e.peers[0].sim.ident.enr.seq() + 1;
        e.peers[0].sim.ident.rebuild_enr(seq, rec_addr);
        e.peers[0].behaviour.always_attach_record = true;
        e.app_knows_peers = false;
        e.peer_request(0, 1);
        e.drain().await;
        if std::env::var("DV5_TRACE").is_ok() {
            for ev in e.dump_trace(100).as_array().unwrap() {
                println!("{:>7} {}", ev["t_ms"], ev["ev"].as_str().unwrap());
            }
        }
        let pid = e.peers[0].sim.id();
        let established = e.trace.iter().any(|t| matches!(&t.ev, Ev::Out(HandlerOut::Established(enr, a, _)) if enr.node_id().raw() == pid && *a == src));
        let unverifiable = e.trace.iter().any(|t| matches!(&t.ev, Ev::Out(HandlerOut::UnverifiableEnr { node_id, .. }) if node_id.raw() == pid));
        rep.evaluations += 1;
        rep.count("address_rule_handshakes");
        let names = ["equal", "other-port", "other-ip", "omitted", "other-family-only"];
        let w = json!({"scenario_seed": seed.to_string(), "kind": "address-rule", "source": src.to_string(), "record_address": names[variant as usize], "established": established, "unverifiable": unverifiable});
        let mismatch = variant == 1 || variant == 2;
        if mismatch {
            rep.count("address_mismatch_handshakes");
            if established || !unverifiable {
                rep.violation("C12:mismatching-address-admitted", format!("a record advertising another UDP address ({}) than the packets came from was reported as established", names[variant as usize]), w);
            }
        } else if !established || unverifiable {
            rep.violation("C12:matching-address-refused", format!("a record whose UDP address is {} was not reported as established", names[variant as usize]), w);
        }
        rep.fingerprint(&("addr", v6mode, variant));
    });
}

pub fn run(p: &Params) -> Report {
    let mut rep = Report::new("C12");
    if let Some(r) = &p.replay {
        if super::sys::replay(r, &mut rep) {
            return rep;
        }
    }
    if let Some(r) = &p.replay {
        let seed: u64 = r["replay"]["scenario_seed"].as_str().unwrap().parse().unwrap();
        if r["replay"]["kind"] == "address-rule" {
            scenario_address_rule(seed, &mut rep);
        } else {
            scenario(seed, &mut rep);
        }
        return rep;
    }
    let n = p.budget(3_000, 200_000);
    for i in 0..n {
        let seed = p.shard_seed(0x12_0000 + i);
        crate::util::guarded(&mut rep, seed, |rep| scenario(seed, rep));
    }
    let m = p.budget(1_600, 60_000);
    for i in 0..m {
        let seed = p.shard_seed(0x1A_0000 + i);
        crate::util::guarded(&mut rep, seed, |rep| scenario_address_rule(seed, rep));
    }
    let _ = kb::log2;
    // full stack: an unmodified Discv5 inside a simulated network, judged on the wire and the API
    super::sys::run_mixed(p, super::sys::Focus::C12, 0x5C12_0000, 1600, 100000, &mut rep);
    rep
}

pub fn debug_trace(seed: u64) {
    let rt = rt1(seed);
    rt.block_on(async {
        let src = v6(5, 9000);
        let cfg = RigConfig { stack: Stack::V6, ..Default::default() };
        let mut e = Engine::new(seed, cfg, 1, Some(vec![src])).await;
        e.peers[0].behaviour.always_attach_record = true;
        let seq = e.peers[0].sim.ident.enr.seq() + 1;
        e.peers[0].sim.ident.rebuild_enr(seq, EnrAddr::Socket(src));
        println!("enr {:?}", e.peers[0].sim.ident.enr);
        e.peer_request(0, 1);
        e.drain().await;
        for ev in e.dump_trace(100).as_array().unwrap() {
            println!("{:>7} {}", ev["t_ms"], ev["ev"].as_str().unwrap());
        }
    });
}
