//! Generic R1 workloads and the offline trace checkers for C04 (exactly one outcome), C13
//! (exemptions) and C19 (nonces). Each property runs its own workload mix, the checkers are
//! shared.

use crate::peer::rlp_ref::RefMessage;
use crate::rig::engine::{Engine, Ev, Faults, InClass, OutClass, TraceEv};
use crate::rig::r1::{runtime, RigConfig};
use crate::util::{hx, Report, Rng};
use discv5::verif::{HandlerOut, ResponseBody};
use discv5::RequestError;
use serde_json::{json, Value};
use std::collections::{BTreeMap, HashMap, HashSet};
use std::net::SocketAddr;
use std::time::Duration;

#[derive(Clone, Debug)]
pub struct Workload {
    pub npeers: usize,
    pub retries: u8,
    pub steps: usize,
    pub faults: Faults,
    pub with_enrless: bool,
    pub lose_sessions: bool,
    pub late_wru: bool,
    pub never_wru: bool,
    pub nodes_lies: bool,
    pub silent_peers: bool,
    pub bursts: bool,
    pub second_whoareyou: bool,
    pub garbage: bool,
    pub forged: bool,
    pub replays: bool,
}

impl Workload {
    pub fn random(rng: &mut Rng) -> Self {
        Workload {
            npeers: 1 + rng.usize(4),
            retries: rng.below(4) as u8,
            steps: 10 + rng.usize(50),
            faults: Faults {
                drop: *rng.pick(&[0u64, 0, 50, 150, 300]),
                dup: *rng.pick(&[0u64, 0, 50, 200]),
                delay: *rng.pick(&[0u64, 0, 100, 300]),
            },
            with_enrless: rng.chance(1, 2),
            lose_sessions: rng.chance(1, 2),
            late_wru: rng.chance(1, 2),
            never_wru: rng.chance(1, 4),
            nodes_lies: rng.chance(1, 3),
            silent_peers: rng.chance(1, 3),
            bursts: rng.chance(1, 3),
            second_whoareyou: rng.chance(1, 3),
            garbage: rng.chance(1, 3),
            forged: rng.chance(1, 3),
            replays: false,
        }
    }

    pub fn json(&self) -> Value {
        json!({"peers": self.npeers, "retries": self.retries, "steps": self.steps,
            "faults_permille": {"drop": self.faults.drop, "dup": self.faults.dup, "delay": self.faults.delay},
            "enrless_contacts": self.with_enrless, "peers_lose_sessions": self.lose_sessions, "late_whoareyou_answers": self.late_wru,
            "unanswered_whoareyou_queries": self.never_wru, "nodes_total_lies": self.nodes_lies, "silent_peers": self.silent_peers,
            "bursts": self.bursts, "second_whoareyou": self.second_whoareyou, "garbage_datagrams": self.garbage, "forged_handshakes": self.forged, "replays": self.replays})
    }
}

/// Runs one workload to quiescence and returns the engine (trace inside).
/// Label of a WHOAREYOU that echoes the nonce of a packet in flight but comes from another socket
/// than the one that packet went to. The handler does not act on it, except that it puts the
/// request back with a fresh timer: the request's timeout period starts again.
pub const FOREIGN_WHOAREYOU: &str = "whoareyou-for-a-live-request-from-a-foreign-socket:";

pub fn foreign_whoareyou(class: &InClass) -> Option<[u8; 12]> {
    match class {
        InClass::Crafted(label) => label.strip_prefix(FOREIGN_WHOAREYOU).and_then(|h| hex::decode(h).ok()).and_then(|v| v.try_into().ok()),
        _ => None,
    }
}

pub fn run_workload(seed: u64, w: &Workload) -> Engine {
    let rt = runtime(seed);
    rt.block_on(async {
        let cfg = RigConfig { request_retries: w.retries, ..Default::default() };
        let mut e = Engine::new(seed, cfg, w.npeers, None).await;
        let timeout = e.rig.cfg_request_timeout;
        e.faults = w.faults.clone();
        e.app_knows_peers = e.rng.bool();
        e.wru_delays = vec![Some(Duration::ZERO), Some(Duration::ZERO), Some(Duration::from_millis(1))];
        if w.late_wru {
            e.wru_delays.push(Some(timeout / 2));
            e.wru_delays.push(Some(timeout + timeout / 4));
        }
        if w.never_wru {
            e.wru_delays.push(None);
        }
        for i in 0..w.npeers {
            let mut rng = e.rng.fork(i as u64);
            let b = &mut e.peers[i].behaviour;
            if w.silent_peers && rng.chance(1, 3) {
                b.respond = false;
                b.challenge_unknown = rng.bool();
            }
            b.nodes_packets = 1 + rng.below(5);
            if w.nodes_lies && rng.chance(1, 2) {
                b.nodes_total = Some(*rng.pick(&[0u64, 1, 2, 7, 16, u64::MAX]));
            }
            // ... or one that changes from packet to packet: the count of the first packet stands
            if w.nodes_lies && rng.chance(1, 4) {
                b.nodes_totals = Some(rng.pick(&[&[3u64, 2][..], &[3, 2, 2], &[4, 3, 2, 1], &[2, 2, 2], &[5, 4, 4, 4, 1], &[2, 16], &[3, 3, 2]]).to_vec());
            }
            if w.with_enrless && rng.chance(1, 3) {
                // slow to hand out its own record: the answer arrives after the request for it ran out
                b.enr_answer_delay = Some(timeout * (w.retries.max(1) as u32) + Duration::from_millis(rng.below(2 * timeout.as_millis() as u64 + 1)));
            }
            b.known_victim_seq = if rng.bool() { 0 } else { 1 };
            b.always_attach_record = rng.bool();
        }
        for _ in 0..w.steps {
            let i = e.rng.usize(w.npeers);
            match e.rng.below(100) {
                0..=39 => {
                    let kind = *e.rng.pick(&[1u8, 3, 3, 5]);
                    let with_enr = !(w.with_enrless && e.rng.chance(1, 3));
                    e.submit(i, kind, with_enr);
                }
                40..=49 if w.bursts => {
                    // now and then more requests at once than the channel to the socket task holds
                    let n = if e.rng.chance(1, 6) { 31 + e.rng.usize(40) } else { 2 + e.rng.usize(10) };
                    for _ in 0..n {
                        let kind = *e.rng.pick(&[1u8, 3, 5]);
                        e.submit(i, kind, true);
                    }
                }
                50..=64 => {
                    let kind = *e.rng.pick(&[1u8, 3, 5]);
                    e.peer_request(i, kind);
                }
                65..=69 if w.lose_sessions => e.peer_lose_session(i),
                70..=74 if w.garbage => {
                    // an undecryptable message from the peer: the victim drops its session
                    let vid = e.victim_id;
                    let key: [u8; 16] = e.rng.array();
                    let id = e.peers[i].sim.id();
                    let addr = e.peers[i].sim.addr();
                    let msg = RefMessage::Ping { id: vec![0xBB], enr_seq: 1 };
                    let (b, nonce) = crate::peer::peersim::message_packet(&mut e.rng, &id, &vid, &key, &msg.encode());
                    // the peer can answer a WHOAREYOU for it
                    e.peers[i].pending_out.insert(nonce, msg);
                    e.send_to_victim(i, addr, b, InClass::Random { nonce });
                }
                75..=79 if w.second_whoareyou => {
                    // challenge the most recent packet the victim sent to this peer once more
                    let addr = e.peers[i].sim.addr();
                    let last = e.trace.iter().rev().find_map(|t| match &t.ev {
                        Ev::Sent { to, class, .. } if *to == addr => match class {
                            OutClass::Handshake { nonce, .. } | OutClass::Message { nonce, .. } | OutClass::Random { nonce } => Some(*nonce),
                            _ => None,
                        },
                        _ => None,
                    });
                    if let Some(nonce) = last {
                        let vid = e.victim_id;
                        let seq = e.peers[i].behaviour.known_victim_seq;
                        let wdg = e.peers[i].sim.whoareyou(&vid, nonce, seq);
                        let cd = e.peers[i].sim.sent_challenges[&nonce].clone();
                        e.peers[i].all_challenges.push(cd);
                        if e.rng.chance(1, 4) {
                            // ... sent by someone who saw the packet on its way, from another socket
                            let from = match e.rng.below(3) {
                                0 => SocketAddr::new(addr.ip(), addr.port().wrapping_add(1).max(1)),
                                1 => e.peers[e.rng.usize(w.npeers)].sim.addr(),
                                _ => crate::rig::r1::v4(10, 250, 0, 1 + e.rng.below(200) as u8, 9999),
                            };
                            if from != addr {
                                e.send_to_victim(i, from, wdg, InClass::Crafted(format!("{FOREIGN_WHOAREYOU}{}", hx(&nonce))));
                                continue;
                            }
                        }
                        e.send_to_victim(i, addr, wdg, InClass::WhoAreYou { request_nonce: nonce });
                    }
                }
                90..=94 if w.forged => {
                    // a malformed handshake answering the victim's most recent WHOAREYOU to this peer
                    let addr = e.peers[i].sim.addr();
                    let cd = e.trace.iter().rev().find_map(|t| match &t.ev {
                        Ev::Sent { to, class: OutClass::WhoAreYou { challenge_data, .. }, .. } if *to == addr => Some(challenge_data.clone()),
                        _ => None,
                    });
                    if let Some(cd) = cd {
                        use crate::peer::peersim::{handshake_packet, signing_key, EphKey, HandshakeSpec, SignedData, Signer};
                        let vid = e.victim_id;
                        let vpub = e.victim_pub;
                        let other = signing_key(&mut e.rng);
                        let variant = e.rng.below(5);
                        let p = &e.peers[i].sim.ident;
                        let foreign = crate::peer::peersim::build_enr(&other, 9, crate::peer::peersim::EnrAddr::Socket(addr), None);
                        let msg = RefMessage::Ping { id: vec![0xF0, variant as u8], enr_seq: 1 };
                        let spec = HandshakeSpec {
                            claimed_id: p.id,
                            signer: if variant == 0 { Signer::Key(other.clone()) } else { Signer::Key(p.sk.clone()) },
                            signed: if variant == 1 { SignedData::OtherChallenge } else { SignedData::Correct },
                            eph: match variant {
                                2 => EphKey::Raw(e.rng.bytes(33)),
                                3 => EphKey::Raw(vec![]),
                                _ => EphKey::Fresh,
                            },
                            record: match variant {
                                4 => Some(crate::peer::rlp_ref::encode_record(&foreign)),
                                _ => if e.rng.bool() { Some(p.record_bytes()) } else { None },
                            },
                            dst: vid,
                            dst_pub: &vpub,
                            challenge_data: &cd,
                            plaintext: &msg.encode(),
                        };
                        let mut r2 = e.rng.fork(77);
                        let out = handshake_packet(&mut r2, &spec);
                        e.send_to_victim(i, addr, out.datagram, InClass::Crafted(format!("forged-handshake-variant-{variant}")));
                    }
                }
                95..=99 if w.replays => {
                    // re-inject a recorded handshake or WHOAREYOU at this later point of the exchange
                    let cands: Vec<(SocketAddr, Option<usize>, InClass, Vec<u8>)> = e
                        .trace
                        .iter()
                        .filter_map(|t| match &t.ev {
                            Ev::Injected { from, peer, class: c @ (InClass::Handshake { .. } | InClass::WhoAreYou { .. }), bytes } => Some((*from, *peer, c.clone(), bytes.clone())),
                            _ => None,
                        })
                        .collect();
                    if !cands.is_empty() {
                        let (from, peer, class, bytes) = cands[e.rng.usize(cands.len())].clone();
                        let same = e.rng.chance(2, 3);
                        let src = if same { from } else { e.peers[e.rng.usize(w.npeers)].sim.addr() };
                        let same = src == from;
                        let p = peer.unwrap_or(i);
                        e.send_to_victim(p, src, bytes, InClass::Replay { of: Box::new(class), same_source: same });
                    }
                }
                80..=89 => {
                    let d = match e.rng.below(4) {
                        0 => timeout / 4,
                        1 => timeout,
                        2 => timeout * 2,
                        _ => Duration::from_millis(5),
                    };
                    e.run_for(d).await;
                }
                _ => {}
            }
            // a few quiescent points between actions
            let n = e.rng.usize(3);
            for _ in 0..n {
                e.step().await;
            }
        }
        // faults stop; everything in flight is delivered, then the C04 quiescence rule
        e.faults = Faults::none();
        e.quiesce().await;
        e
    })
}

/* ------------------------------------------------------------------------------------------ */

pub struct Req {
    pub peer: usize,
    pub submitted: Duration,
    pub with_enr: bool,
    /// (time, is_failure, detail)
    pub events: Vec<(Duration, bool, String)>,
    pub terminal_at: Option<Duration>,
    pub remaining: Option<u64>,
    pub timeout_failure: Option<Duration>,
}

pub fn requests(trace: &[TraceEv]) -> BTreeMap<Vec<u8>, Req> {
    let mut reqs: BTreeMap<Vec<u8>, Req> = BTreeMap::new();
    for t in trace {
        match &t.ev {
            Ev::Submit { id, peer, with_enr, .. } => {
                reqs.insert(id.clone(), Req { peer: *peer, submitted: t.at, with_enr: *with_enr, events: vec![], terminal_at: None, remaining: None, timeout_failure: None });
            }
            Ev::Out(HandlerOut::Response(_, r)) => {
                if let Some(q) = reqs.get_mut(&r.id.0) {
                    let was_terminal = q.terminal_at.is_some();
                    let terminal = match &r.body {
                        ResponseBody::Nodes { total, .. } if *total > 1 => match q.remaining {
                            None => {
                                q.remaining = Some(total - 1);
                                false
                            }
                            Some(rem) => {
                                q.remaining = Some(rem.saturating_sub(1));
                                rem <= 1
                            }
                        },
                        _ => true,
                    };
                    q.events.push((t.at, false, format!("response{}", if was_terminal { " AFTER TERMINAL" } else { "" })));
                    if terminal && !was_terminal {
                        q.terminal_at = Some(t.at);
                    }
                }
            }
            Ev::Out(HandlerOut::RequestFailed(id, err)) => {
                if let Some(q) = reqs.get_mut(&id.0) {
                    let was_terminal = q.terminal_at.is_some();
                    q.events.push((t.at, true, format!("failed {err:?}{}", if was_terminal { " AFTER TERMINAL" } else { "" })));
                    if matches!(err, RequestError::Timeout) {
                        q.timeout_failure = Some(t.at);
                    }
                    if !was_terminal {
                        q.terminal_at = Some(t.at);
                    }
                }
            }
            _ => {}
        }
    }
    reqs
}

/// C04 checker. `prefix` is the property id used in signatures.
pub fn check_c04(e: &Engine, w: &Workload, seed: u64, rep: &mut Report) -> (usize, Vec<&'static str>) {
    let trace = &e.trace;
    let reqs = requests(trace);
    let timeout = e.rig.cfg_request_timeout;
    let retries = e.rig.cfg_request_retries as usize;
    let mut features: Vec<&'static str> = Vec::new();
    let replay = |what: &str, id: &[u8]| {
        json!({"scenario_seed": seed.to_string(), "what": what, "request": hx(id), "workload": w.json(),
            "trace_tail": tail_for(trace, id, 60)})
    };
    for (id, q) in &reqs {
        rep.count("requests");
        // (a) exactly one terminal outcome
        let after: Vec<&(Duration, bool, String)> = q.events.iter().filter(|ev| ev.2.contains("AFTER TERMINAL")).collect();
        if !after.is_empty() {
            let failures = q.events.iter().filter(|e| e.1).count();
            let sig = if failures >= 2 { "C04:two-failures" } else if failures == 1 { "C04:response-and-failure" } else { "C04:response-after-completion" };
            rep.violation(sig, format!("request {} got an event after its terminal outcome: {:?}", hx(id), q.events.iter().map(|e| e.2.clone()).collect::<Vec<_>>()), replay("more than one outcome", id));
        }
        if q.terminal_at.is_none() {
            rep.violation("C04:no-outcome", format!("request {} (peer {}, record known: {}) neither answered nor failed after quiescence", hx(id), q.peer, q.with_enr), replay("no outcome", id));
        } else if q.events.last().map(|e| e.1).unwrap_or(false) {
            rep.count("requests_failed");
        } else {
            rep.count("requests_answered");
        }
    }
    // (b) transmissions per request and session key
    let mut tx: HashMap<(Vec<u8>, usize, usize), HashSet<Vec<u8>>> = HashMap::new(); // (id, peer, gen) -> distinct datagrams
    let mut tx_count: HashMap<(Vec<u8>, usize, usize), usize> = HashMap::new();
    let mut random_count: HashMap<(usize, [u8; 12]), usize> = HashMap::new();
    for t in trace {
        if let Ev::Sent { peer: Some(p), class, bytes, .. } = &t.ev {
            match class {
                OutClass::Message { gen, msg: Some(m), .. } | OutClass::Handshake { gen: Some(gen), msg: Some(m), .. } if m.is_request() => {
                    let k = (m.id().to_vec(), *p, *gen);
                    tx.entry(k.clone()).or_default().insert(bytes.clone());
                    *tx_count.entry(k).or_default() += 1;
                }
                OutClass::Random { nonce } => {
                    *random_count.entry((*p, *nonce)).or_default() += 1;
                }
                _ => {}
            }
        }
    }
    for (k, n) in &tx_count {
        rep.max("transmissions_per_request_and_key", *n as u64);
        if *n > 1 {
            if !features.contains(&"retransmission") {
                features.push("retransmission");
            }
        }
        if *n > 1 + retries {
            rep.violation("C04:too-many-transmissions", format!("request {} was put on the wire {n} times under one session key (retries = {retries})", hx(&k.0)), replay("transmissions", &k.0));
        }
    }
    for ((p, nonce), n) in &random_count {
        if *n > 1 + retries {
            rep.violation("C04:too-many-transmissions", format!("a session-initiating packet to peer {p} was sent {n} times (retries = {retries})"), json!({"scenario_seed": seed.to_string(), "nonce": hx(nonce), "workload": w.json()}));
        }
    }
    // (c) legitimacy of timeouts: some request to that peer must have been on the wire with
    // nothing arriving for it during a whole timeout period that ends before the failure.
    for (id, q) in &reqs {
        let Some(t_fail) = q.timeout_failure else { continue };
        rep.count("timeout_failures");
        let addr = e.peers[q.peer].sim.addr();
        let slack = Duration::from_millis(3);
        // conversations with that address: key -> (times of transmissions, nonces used)
        let mut convs: HashMap<Vec<u8>, (Vec<Duration>, Vec<[u8; 12]>)> = HashMap::new();
        for t in trace.iter().take_while(|t| t.at <= t_fail) {
            let Ev::Sent { to, class, .. } = &t.ev else { continue };
            if *to != addr {
                continue;
            }
            let (key, nonce) = match class {
                OutClass::Message { nonce, msg: Some(m), .. } | OutClass::Handshake { nonce, msg: Some(m), .. } if m.is_request() => (m.id().to_vec(), *nonce),
                OutClass::Random { nonce } => (nonce.to_vec(), *nonce),
                _ => continue,
            };
            let c = convs.entry(key).or_default();
            c.0.push(t.at);
            c.1.push(nonce);
        }
        let mut legit = false;
        for (key, (tx_times, nonces)) in &convs {
            let answers: Vec<Duration> = trace
                .iter()
                .take_while(|t| t.at <= t_fail)
                .filter_map(|u| match &u.ev {
                    Ev::Injected { from, class, .. } if *from == addr => match class {
                        // a WHOAREYOU concerns the request only if it echoes the nonce of the
                        // packet the request currently travels in (its latest transmission); one
                        // that echoes an earlier packet of it is ignored by the handler
                        InClass::WhoAreYou { request_nonce } if tx_times.iter().zip(nonces.iter()).filter(|(at, _)| **at <= u.at).last().map(|(_, n)| n == request_nonce).unwrap_or(false) => Some(u.at),
                        InClass::Message { msg, .. } if !msg.is_request() && msg.id() == &key[..] => Some(u.at),
                        _ => None,
                    },
                    _ => None,
                })
                .collect();
            for e0 in tx_times.iter().chain(answers.iter()) {
                let next_answer = answers.iter().filter(|a| **a > *e0).min().copied().unwrap_or(Duration::MAX);
                let end = next_answer.min(t_fail + slack);
                if end >= *e0 + timeout.saturating_sub(slack) {
                    legit = true;
                    break;
                }
            }
            if legit {
                break;
            }
        }
        if !legit {
            rep.violation("C04:spurious-timeout", format!("request {} failed with Timeout at {:?} although no request to that peer had been unanswered for a full timeout period", hx(id), t_fail), replay("spurious timeout", id));
        }
    }
    // features for the coverage fingerprint
    let has = |f: &dyn Fn(&Ev) -> bool| trace.iter().any(|t| f(&t.ev));
    if has(&|e| matches!(e, Ev::Dropped { .. })) {
        features.push("loss");
    }
    if has(&|e| matches!(e, Ev::PeerLostSession { .. })) {
        features.push("peer-lost-session");
    }
    if has(&|e| matches!(e, Ev::Sent { class: OutClass::WhoAreYou { .. }, .. })) {
        features.push("victim-challenged");
    }
    if has(&|e| matches!(e, Ev::Injected { class: InClass::WhoAreYou { .. }, .. })) {
        features.push("peer-challenged");
    }
    if has(&|e| matches!(e, Ev::Out(HandlerOut::RequestFailed(_, RequestError::Timeout)))) {
        features.push("timeout");
    }
    if has(&|e| matches!(e, Ev::Out(HandlerOut::RequestFailed(_, err)) if !matches!(err, RequestError::Timeout))) {
        features.push("other-failure");
    }
    if has(&|e| matches!(e, Ev::Out(HandlerOut::Response(_, r)) if matches!(r.body, ResponseBody::Nodes { total, .. } if total > 1))) {
        features.push("multi-packet-nodes");
    }
    if has(&|e| matches!(e, Ev::Submit { with_enr: false, .. })) {
        features.push("enrless");
    }
    let mon_gens: usize = e.peers.iter().map(|p| p.mon_keys.len()).max().unwrap_or(0);
    if mon_gens > 1 {
        features.push("re-keyed");
    }
    (reqs.len(), features)
}

fn tail_for(trace: &[TraceEv], id: &[u8], n: usize) -> Value {
    // the last n non-snapshot events, marking those that mention the request id
    let idhex = hx(id);
    let evs: Vec<&TraceEv> = trace.iter().filter(|t| !matches!(t.ev, Ev::Exemptions(_))).collect();
    let start = evs.len().saturating_sub(n);
    // but make sure the submission itself is included
    let mut out: Vec<Value> = Vec::new();
    for t in evs.iter().filter(|t| matches!(&t.ev, Ev::Submit { id: i, .. } if i == id)) {
        out.push(json!({"t_ms": t.at.as_millis() as u64, "ev": crate::rig::engine::show_ev(&t.ev)}));
    }
    for t in &evs[start..] {
        let s = crate::rig::engine::show_ev(&t.ev);
        out.push(json!({"t_ms": t.at.as_millis() as u64, "ev": s, "mentions_request": s.contains(&idhex)}));
    }
    Value::Array(out)
}

/* ------------------------------------------ C13 ------------------------------------------ */

/// Outstanding challenges the victim sent, as far as the wire shows: address -> list of
/// (sent_at, last_arm, nonce echoed).
pub struct ChallengeLedger {
    pub open: HashMap<SocketAddr, Vec<(Duration, Duration, [u8; 12], usize)>>,
}

pub fn check_c13(e: &Engine, w: &Workload, seed: u64, rep: &mut Report) -> Vec<&'static str> {
    let trace = &e.trace;
    let timeout = e.rig.cfg_request_timeout;
    let retries = e.rig.cfg_request_retries as u32;
    let slack = Duration::from_millis(3);
    let mut features = Vec::new();
    // request state
    struct R {
        addr: SocketAddr,
        on_wire: bool,
        terminal: bool,
        remaining: Option<u64>,
    }
    let mut reqs: HashMap<Vec<u8>, R> = HashMap::new();
    // internal (handler-made ENR) requests: id -> (addr, last activity, answered)
    let mut internal: HashMap<Vec<u8>, (SocketAddr, Duration, bool)> = HashMap::new();
    // random packets: (addr, nonce) -> first sent; they belong to *some* not yet transmitted request
    let mut randoms: HashMap<SocketAddr, Vec<([u8; 12], Duration)>> = HashMap::new();
    // challenges: (addr, peer) -> (last_arm, sure)
    let mut challenges: HashMap<(SocketAddr, usize), (Duration, bool)> = HashMap::new();
    // the last datagram injected: (addr, peer, was a handshake, internal response id)
    let mut last_injected: Option<(SocketAddr, usize, bool, Option<Vec<u8>>)> = None;
    let mut max_map = 0usize;
    for (idx, t) in trace.iter().enumerate() {
        match &t.ev {
            Ev::Submit { id, peer, .. } => {
                reqs.insert(id.clone(), R { addr: e.peers[*peer].sim.addr(), on_wire: false, terminal: false, remaining: None });
            }
            Ev::Sent { to, peer: Some(p), class, .. } => match class {
                OutClass::Message { msg: Some(m), .. } | OutClass::Handshake { msg: Some(m), .. } if m.is_request() => {
                    let id = m.id().to_vec();
                    if let Some(r) = reqs.get_mut(&id) {
                        r.on_wire = true;
                    } else {
                        let answered = internal.get(&id).map(|i| i.2).unwrap_or(false);
                        internal.insert(id, (*to, t.at, answered));
                        if !features.contains(&"internal-enr-request") {
                            features.push("internal-enr-request");
                        }
                    }
                }
                OutClass::Random { nonce } => {
                    let v = randoms.entry(*to).or_default();
                    if !v.iter().any(|(n, _)| n == nonce) {
                        v.push((*nonce, t.at));
                    }
                }
                OutClass::WhoAreYou { .. } => {
                    challenges.insert((*to, *p), (t.at, true));
                }
                _ => {}
            },
            Ev::Injected { from, peer: Some(p), class, .. } => {
                let is_hs = matches!(class, InClass::Handshake { .. } | InClass::Crafted(_) | InClass::Replay { .. });
                if is_hs {
                    // accepted, consumed, or re-armed (a bad signature re-inserts the challenge
                    // and restarts its timer) - if it was still outstanding. Which of these is
                    // decided by the events that follow; until then the entry is unsure.
                    if let Some(c) = challenges.get_mut(&(*from, *p)) {
                        if t.at <= c.0 + timeout + slack {
                            c.0 = t.at;
                            c.1 = false;
                        }
                    }
                }
                if let Some(n) = foreign_whoareyou(class) {
                    // the request travelling under that nonce gets a fresh timer
                    let rid = trace[..idx].iter().rev().find_map(|u| match &u.ev {
                        Ev::Sent { class: OutClass::Message { nonce, msg: Some(m), .. } | OutClass::Handshake { nonce, msg: Some(m), .. }, .. } if *nonce == n => Some(m.id().to_vec()),
                        _ => None,
                    });
                    if let Some(i) = rid.and_then(|id| internal.get_mut(&id)) {
                        if !i.2 && t.at <= i.1 + timeout * (retries + 2) + slack {
                            i.1 = t.at;
                        }
                    }
                }
                let internal_id = match class {
                    InClass::Message { msg, .. } if !msg.is_request() && internal.contains_key(msg.id()) => Some(msg.id().to_vec()),
                    _ => None,
                };
                last_injected = Some((*from, *p, is_hs, internal_id));
            }
            Ev::Out(HandlerOut::Established(_, addr, discv5::verif::ConnectionDirection::Outgoing)) => {
                // For a contact without record this is emitted when the answer to the handler's
                // own ENR request has been processed: that request is no longer outstanding.
                if let Some((from, _, _, Some(id))) = &last_injected {
                    if from == addr {
                        if let Some(i) = internal.get_mut(id) {
                            i.2 = true;
                        }
                    }
                }
            }
            Ev::Out(HandlerOut::Established(enr, addr, discv5::verif::ConnectionDirection::Incoming)) => {
                // the challenge was answered - if this follows an injected handshake (the same
                // event is emitted when the victim itself answers a WHOAREYOU)
                let id = enr.node_id().raw();
                if let Some(p) = e.peers.iter().position(|p| p.sim.id() == id) {
                    if matches!(&last_injected, Some((from, lp, true, _)) if from == addr && *lp == p) {
                        challenges.remove(&(*addr, p));
                    }
                }
            }
            Ev::Out(HandlerOut::UnverifiableEnr { socket, node_id, .. }) => {
                if let Some(p) = e.peers.iter().position(|p| p.sim.id() == node_id.raw()) {
                    challenges.remove(&(*socket, p));
                }
            }
            Ev::Out(HandlerOut::Response(_, r)) => {
                if let Some(q) = reqs.get_mut(&r.id.0) {
                    let terminal = match &r.body {
                        ResponseBody::Nodes { total, .. } if *total > 1 => match q.remaining {
                            None => {
                                q.remaining = Some(total - 1);
                                false
                            }
                            Some(rem) => {
                                q.remaining = Some(rem.saturating_sub(1));
                                rem <= 1
                            }
                        },
                        _ => true,
                    };
                    if terminal {
                        q.terminal = true;
                    }
                } else if let Some(i) = internal.get_mut(&r.id.0) {
                    match &r.body {
                        // a partial answer re-arms the request's timer
                        ResponseBody::Nodes { total, .. } if *total > 1 => i.1 = t.at,
                        _ => i.2 = true,
                    }
                }
            }
            Ev::Out(HandlerOut::RequestFailed(id, _)) => {
                if let Some(q) = reqs.get_mut(&id.0) {
                    q.terminal = true;
                }
            }
            Ev::Exemptions(map) => {
                rep.count("exemption_snapshots");
                let now = t.at;
                // per address bounds
                let mut addrs: HashSet<SocketAddr> = map.keys().copied().collect();
                for r in reqs.values() {
                    addrs.insert(r.addr);
                }
                for a in addrs {
                    let have = *map.get(&a).unwrap_or(&0);
                    max_map = max_map.max(have);
                    if map.get(&a) == Some(&0) {
                        rep.violation("C13:zero-entry", "the exemption map holds an entry with count 0".into(), json!({"scenario_seed": seed.to_string(), "addr": a.to_string(), "workload": w.json()}));
                    }
                    // definite lower bound: requests seen on the wire (decrypted) and not terminal
                    let definite = reqs.values().filter(|r| r.addr == a && r.on_wire && !r.terminal).count();
                    // upper bound: every non-terminal request to a + possibly live internal requests + possibly live challenges
                    let open_reqs = reqs.values().filter(|r| r.addr == a && !r.terminal).count();
                    let live_internal = internal.values().filter(|(ad, last, answered)| *ad == a && !answered && now <= *last + timeout * (retries + 2) + slack).count();
                    let answered_internal = internal.values().filter(|(ad, last, answered)| *ad == a && *answered && now <= *last + timeout * (retries + 2) + slack).count();
                    let maybe_challenges = challenges.iter().filter(|((ad, _), c)| *ad == a && now <= c.0 + timeout + slack).count();
                    let sure_challenges = challenges.iter().filter(|((ad, _), c)| *ad == a && c.1 && now + slack < c.0 + timeout).count();
                    let lower = definite + sure_challenges;
                    let upper = open_reqs + live_internal + maybe_challenges;
                    if have < lower {
                        rep.violation("C13:exemption-missing", format!("address {a} has {have} exemptions but at least {lower} outstanding items ({definite} requests on the wire, {sure_challenges} challenges)"), c13_replay(seed, w, trace, idx, a));
                        return features;
                    }
                    if have > upper && have <= upper + answered_internal {
                        rep.violation("C13:exemption-kept-for-answered-enr-request", format!("address {a} keeps {have} exemptions although only {upper} items are outstanding: the handler's own ENR request to it has already been answered"), c13_replay(seed, w, trace, idx, a));
                        return features;
                    }
                    if have > upper {
                        rep.violation("C13:exemption-leak", format!("address {a} has {have} exemptions but at most {upper} outstanding items ({open_reqs} open requests, {live_internal} internal, {maybe_challenges} challenges)"), c13_replay(seed, w, trace, idx, a));
                        return features;
                    }
                    if lower == upper && lower > 0 {
                        rep.count("exact_count_checks");
                    }
                }
            }
            _ => {}
        }
    }
    // at the quiescence deadline the map must be empty
    let last = trace.iter().rev().find_map(|t| match &t.ev {
        Ev::Exemptions(m) => Some(m.clone()),
        _ => None,
    });
    if let Some(m) = last {
        rep.count("final_map_checks");
        if !m.is_empty() {
            let open: Vec<String> = reqs.iter().filter(|(_, r)| !r.terminal).map(|(i, _)| hx(i)).collect();
            if open.is_empty() {
                rep.violation("C13:exemption-leak-at-quiescence", format!("every request completed or failed and every challenge expired, but exemptions remain: {m:?}"), c13_replay(seed, w, trace, trace.len() - 1, *m.keys().next().unwrap()));
            }
        }
    }
    rep.max("exemptions_per_address", max_map as u64);
    features
}

fn recent_handshake(trace: &[TraceEv], idx: usize, a: SocketAddr, timeout: Duration) -> bool {
    // was a handshake injected from `a` within the last timeout? then the challenge state is unsure
    let now = trace[idx].at;
    trace[..idx].iter().rev().take_while(|t| t.at + timeout >= now).any(|t| matches!(&t.ev, Ev::Injected { from, class: InClass::Handshake { .. } | InClass::Crafted(_), .. } if *from == a))
}

fn c13_replay(seed: u64, w: &Workload, trace: &[TraceEv], idx: usize, a: SocketAddr) -> Value {
    let start = idx.saturating_sub(80);
    json!({"scenario_seed": seed.to_string(), "workload": w.json(), "address": a.to_string(),
        "trace_tail": trace[start..=idx].iter().filter(|t| !matches!(t.ev, Ev::Exemptions(_))).map(|t| json!({"t_ms": t.at.as_millis() as u64, "ev": crate::rig::engine::show_ev(&t.ev)})).collect::<Vec<_>>()})
}

/* ------------------------------------------ C19 ------------------------------------------ */

pub fn check_c19(e: &Engine, w: &Workload, seed: u64, rep: &mut Report) {
    // group every datagram the victim emitted by the key that decrypts it
    let mut by_key: HashMap<(usize, usize), HashMap<[u8; 12], Vec<u8>>> = HashMap::new();
    let mut id_nonces: HashMap<[u8; 16], Vec<u8>> = HashMap::new();
    let mut other: HashMap<[u8; 12], Vec<u8>> = HashMap::new();
    for t in &e.trace {
        let Ev::Sent { peer: Some(p), class, bytes, .. } = &t.ev else { continue };
        match class {
            OutClass::Message { gen, nonce, .. } | OutClass::Handshake { gen: Some(gen), nonce, .. } => {
                rep.count("encrypted_datagrams");
                let m = by_key.entry((*p, *gen)).or_default();
                match m.get(nonce) {
                    Some(prev) if prev != bytes => {
                        rep.violation("C19:nonce-reuse", format!("two different datagrams under one session key carry the nonce {}", hx(nonce)), json!({"scenario_seed": seed.to_string(), "workload": w.json(), "peer": p, "key_generation": gen, "first": hx(prev), "second": hx(bytes)}));
                    }
                    Some(_) => rep.count("identical_retransmissions"),
                    None => {
                        m.insert(*nonce, bytes.clone());
                    }
                }
                if matches!(class, OutClass::Handshake { .. }) {
                    if let Some(prev) = other.get(nonce) {
                        if prev != bytes {
                            rep.violation("C19:handshake-nonce-reuse", "handshake / random packet nonce repeated".into(), json!({"scenario_seed": seed.to_string(), "nonce": hx(nonce)}));
                        }
                    } else {
                        other.insert(*nonce, bytes.clone());
                    }
                }
            }
            OutClass::Random { nonce } => {
                rep.count("random_packets");
                if let Some(prev) = other.get(nonce) {
                    if prev != bytes {
                        rep.violation("C19:handshake-nonce-reuse", "handshake / random packet nonce repeated".into(), json!({"scenario_seed": seed.to_string(), "nonce": hx(nonce)}));
                    }
                } else {
                    other.insert(*nonce, bytes.clone());
                }
            }
            OutClass::WhoAreYou { id_nonce, .. } => {
                rep.count("whoareyou_packets");
                match id_nonces.get(id_nonce) {
                    Some(prev) if prev != bytes => {
                        rep.violation("C19:id-nonce-reuse", format!("two WHOAREYOU packets carry the id-nonce {}", hx(id_nonce)), json!({"scenario_seed": seed.to_string(), "workload": w.json(), "first": hx(prev), "second": hx(bytes)}));
                    }
                    Some(_) => {
                        // a byte-identical WHOAREYOU would be a retransmission; the handler has none
                        rep.violation("C19:id-nonce-reuse", "a WHOAREYOU packet was emitted twice".into(), json!({"scenario_seed": seed.to_string()}));
                    }
                    None => {
                        id_nonces.insert(*id_nonce, bytes.clone());
                    }
                }
            }
            _ => {}
        }
    }
    let keys = by_key.len();
    let maxper = by_key.values().map(|m| m.len()).max().unwrap_or(0);
    rep.max("datagrams_under_one_key", maxper as u64);
    rep.count_n("session_keys_observed", keys as u64);
    // informational: counter prefix increasing per key?
    rep.fingerprint(&("c19", keys.min(12), (maxper / 8).min(40), id_nonces.len().min(20)));
}
