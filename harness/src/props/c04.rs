//! C04 / C13 / C19 entry points: each property runs its own mix of the generic R1 workload and
//! its own checker over the recorded trace.

use super::wire::{check_c04, check_c13, check_c19, run_workload, Workload};
use crate::rig::engine::{Ev, OutClass};
use crate::util::{Params, Report, Rng};
use serde_json::json;

fn replay_seed(p: &Params) -> Option<u64> {
    p.replay.as_ref().and_then(|r| r["replay"]["scenario_seed"].as_str().and_then(|s| s.parse().ok()))
}

pub fn scenario_c04(seed: u64, rep: &mut Report) {
    let mut rng = Rng::new(seed);
    let w = Workload::random(&mut rng);
    let e = run_workload(seed, &w);
    if std::env::var("DV5_TRACE").is_ok() {
        println!("workload {}", w.json());
        for ev in e.dump_trace(1_000_000).as_array().unwrap() {
            println!("{:>7} {}", ev["t_ms"], ev["ev"].as_str().unwrap());
        }
    }
    rep.evaluations += 1;
    let (nreq, mut features) = check_c04(&e, &w, seed, rep);
    features.sort();
    features.dedup();
    if nreq > 0 {
        rep.fingerprint(&(features.clone(), w.retries, w.npeers));
    }
    rep.count_n("virtual_seconds", e.trace.last().map(|t| t.at.as_secs()).unwrap_or(0));
    if rep.want_sample() && features.len() >= 5 {
        rep.sample(json!({"scenario_seed": seed.to_string(), "workload": w.json(), "requests": nreq, "features": features, "trace_head": e.dump_trace(100000).as_array().map(|a| a.iter().take(25).cloned().collect::<Vec<_>>())}));
    }
}

/// Contacts whose key type this implementation cannot do a handshake with (ed25519): a request
/// to such a contact that is challenged must still end with exactly one outcome, and so must the
/// requests queued behind it (wire rig, crafted WHOAREYOU).
pub fn scenario_unsupported_key(seed: u64, rep: &mut Report) {
    use crate::peer::codec_ref;
    use crate::rig::r1::{runtime, v4, RigConfig, WireRig};
    use discv5::enr::{ed25519_dalek, CombinedKey};
    use discv5::verif::{HandlerIn, HandlerOut, Request, RequestBody};
    let rt = runtime(seed);
    rt.block_on(async {
        let mut rng = Rng::new(seed ^ 0xED25);
        let retries = 1 + rng.below(3) as u8;
        let rig = WireRig::start(&mut rng, RigConfig { request_retries: retries, ..Default::default() }).await;
        let vid = rig.victim_id();
        let key = CombinedKey::Ed25519(ed25519_dalek::SigningKey::from_bytes(&rng.array()));
        let addr = v4(10, 3, 7, 1 + rng.below(200) as u8, 9700);
        let enr = {
            let mut b = discv5::Enr::builder();
            if let std::net::SocketAddr::V4(a) = addr {
                b.ip4(*a.ip());
                b.udp4(a.port());
            }
            b.build(&key).expect("ed25519 record")
        };
        let peer_id: [u8; 32] = enr.node_id().raw();
        let contact = discv5::NodeContact::try_from_enr(enr, discv5::IpMode::Ip4).expect("contactable");
        let n = 1 + rng.usize(4);
        let mut ids: Vec<Vec<u8>> = Vec::new();
        for k in 0..n {
            let id = vec![0xED, k as u8];
            let body = match rng.below(3) {
                0 => RequestBody::Ping { enr_seq: 1 },
                1 => RequestBody::FindNode { distances: vec![256] },
                _ => RequestBody::Talk { protocol: b"verif".to_vec(), request: vec![k as u8] },
            };
            rig.submit(HandlerIn::Request(contact.clone(), Box::new(Request { id: discv5::RequestId(id.clone()), body })));
            ids.push(id);
        }
        rig.settle().await;
        rep.evaluations += 1;
        rep.count("unsupported_key_scenarios");
        // the first request travels as a random packet: someone at that address challenges it
        let challenged = rng.chance(3, 4);
        if challenged {
            let nonce = rig.take_sent().iter().find_map(|s| {
                let (to, bytes) = &s.v;
                if *to != addr {
                    return None;
                }
                codec_ref::decode(&peer_id, bytes).ok().map(|d| d.nonce)
            });
            if let Some(nonce) = nonce {
                if rng.bool() {
                    rig.sleep(rig.cfg_request_timeout / 3).await;
                }
                let (w, _) = crate::peer::peersim::whoareyou_packet(&mut rng, &vid, nonce, 0);
                rig.inject(addr, w);
                rig.settle().await;
                rep.count("challenges_to_unsupported_key_requests");
            }
        }
        // every timer runs out
        for _ in 0..(retries as u32 + 3) {
            rig.sleep(rig.cfg_request_timeout).await;
            rig.settle().await;
        }
        let mut outcomes: std::collections::HashMap<Vec<u8>, usize> = std::collections::HashMap::new();
        for e in rig.take_events() {
            match e.v {
                HandlerOut::RequestFailed(id, _) => *outcomes.entry(id.0).or_default() += 1,
                HandlerOut::Response(_, r) => *outcomes.entry(r.id.0.clone()).or_default() += 1,
                _ => {}
            }
        }
        for id in &ids {
            let k = outcomes.get(id).copied().unwrap_or(0);
            if k != 1 {
                rep.violation(if k == 0 { "C04:no-outcome" } else { "C04:more-than-one-outcome" }, format!("request {} to a contact with an ed25519 key ended with {k} outcomes (challenged: {challenged})", crate::util::hx(id)), json!({"scenario_seed": seed.to_string(), "kind": "unsupported-key", "requests": n, "challenged": challenged}));
            }
        }
        rep.fingerprint(&("unsupported-key", n, challenged, retries));
    });
}

pub fn run_c04(p: &Params) -> Report {
    let mut rep = Report::new("C04");
    if let Some(r) = &p.replay {
        if super::sys::replay(r, &mut rep) {
            return rep;
        }
    }
    if let Some(seed) = replay_seed(p) {
        if p.replay.as_ref().map(|r| r["replay"]["kind"] == "unsupported-key").unwrap_or(false) {
            scenario_unsupported_key(seed, &mut rep);
        } else {
            scenario_c04(seed, &mut rep);
        }
        return rep;
    }
    let n = p.budget(16_000, 800_000);
    for i in 0..n {
        let seed = p.shard_seed(0x04_0000 + i);
        crate::util::guarded(&mut rep, seed, |rep| scenario_c04(seed, rep));
        if i % 16 == 0 {
            let seed = p.shard_seed(0xED25_0000 + i);
            crate::util::guarded(&mut rep, seed, |rep| scenario_unsupported_key(seed, rep));
        }
    }
    // full stack: every call of the public API ends with a result or an error
    super::sys::run_mixed(p, super::sys::Focus::C04, 0x5C04_0000, 1600, 100_000, &mut rep);
    rep
}

pub fn scenario_c13(seed: u64, rep: &mut Report) {
    let mut rng = Rng::new(seed);
    let mut w = Workload::random(&mut rng);
    // emphasis on the error paths
    w.second_whoareyou = rng.chance(2, 3);
    w.forged = rng.chance(2, 3);
    w.garbage = rng.chance(1, 2);
    w.with_enrless = rng.chance(1, 2);
    let e = run_workload(seed, &w);
    rep.evaluations += 1;
    let mut features = check_c13(&e, &w, seed, rep);
    let has = |f: &dyn Fn(&Ev) -> bool| e.trace.iter().any(|t| f(&t.ev));
    if has(&|e| matches!(e, Ev::Injected { class: crate::rig::engine::InClass::Crafted(_), .. })) {
        features.push("forged-handshake");
        rep.count("scenarios_with_forged_handshake");
    }
    if has(&|e| matches!(e, Ev::Sent { class: OutClass::WhoAreYou { .. }, .. })) {
        features.push("challenge");
        rep.count("scenarios_with_challenge");
    }
    if has(&|e| matches!(e, Ev::Out(discv5::verif::HandlerOut::RequestFailed(_, discv5::RequestError::InvalidRemotePacket)))) {
        features.push("invalid-remote-packet");
        rep.count("scenarios_with_invalid_remote_packet");
    }
    if has(&|e| matches!(e, Ev::Out(discv5::verif::HandlerOut::RequestFailed(_, discv5::RequestError::Timeout)))) {
        features.push("timeout");
    }
    features.sort();
    features.dedup();
    rep.fingerprint(&(features.clone(), w.npeers, w.retries));
    if rep.want_sample() && features.len() >= 4 {
        rep.sample(json!({"scenario_seed": seed.to_string(), "workload": w.json(), "features": features}));
    }
}

/// The exemption covers what the node is waiting for even when the operating system reports the
/// peer's IPv6 source address with a scope id or flow label (link-local peers), and with a packet
/// filter whose quota is far below one exchange: the awaited WHOAREYOU and the response pass.
pub fn scenario_scoped_source(seed: u64, rep: &mut Report) {
    use crate::rig::engine::Engine;
    use crate::rig::r1::{runtime, v6, RigConfig, Stack};
    use discv5::verif::HandlerOut;
    let rt = runtime(seed);
    rt.block_on(async {
        let mut rng = Rng::new(seed ^ 0x5C09);
        let hour = std::time::Duration::from_secs(3600);
        let rl = discv5::RateLimiterBuilder::new().total_n_every(1000, hour).ip_n_every(1, hour).node_n_every(1, hour).build().expect("quota");
        let cfg = RigConfig { stack: if rng.bool() { Stack::V6 } else { Stack::Dual }, packet_filter: true, rate_limiter: Some(rl), request_retries: 1, ..Default::default() };
        let peer = v6(0x40 + rng.below(100) as u16, 9000);
        let mut e = Engine::new(seed, cfg, 1, Some(vec![peer])).await;
        let scope = match rng.below(3) {
            0 => (0u32, 1 + rng.below(9) as u32),
            1 => (1 + rng.below(1000) as u32, 0u32),
            _ => (7, 3),
        };
        e.inject_scope = Some(scope);
        let kind = *rng.pick(&[1u8, 3, 5]);
        let id = e.submit(0, kind, true);
        e.drain().await;
        e.quiesce().await;
        rep.evaluations += 1;
        rep.count("scoped_source_exchanges");
        let answered = e.trace.iter().any(|t| matches!(&t.ev, Ev::Out(HandlerOut::Response(_, r)) if r.id.0 == id));
        let failed = e.trace.iter().any(|t| matches!(&t.ev, Ev::Out(HandlerOut::RequestFailed(rid, _)) if rid.0 == id));
        rep.fingerprint(&("scoped-source", kind, scope.0 != 0, scope.1 != 0));
        if !answered {
            rep.violation("C13:awaited-datagram-filtered", format!("a request to an IPv6 peer whose source address carries flow info {} / scope id {} was answered by the peer, but the answer did not pass (request failed: {failed}): the exemption did not cover what the node was waiting for", scope.0, scope.1), json!({"scenario_seed": seed.to_string(), "kind": "scoped-source", "trace": e.dump_trace(30)}));
        }
    });
}

pub fn run_c13(p: &Params) -> Report {
    let mut rep = Report::new("C13");
    if let Some(r) = &p.replay {
        if super::sys::replay(r, &mut rep) {
            return rep;
        }
    }
    if let Some(seed) = replay_seed(p) {
        if p.replay.as_ref().map(|r| r["replay"]["kind"] == "scoped-source").unwrap_or(false) {
            scenario_scoped_source(seed, &mut rep);
        } else {
            scenario_c13(seed, &mut rep);
        }
        return rep;
    }
    let n = p.budget(16_000, 600_000);
    for i in 0..n {
        let seed = p.shard_seed(0x13_0000 + i);
        crate::util::guarded(&mut rep, seed, |rep| scenario_c13(seed, rep));
        if i % 16 == 0 {
            let seed = p.shard_seed(0x5C09_0000 + i);
            crate::util::guarded(&mut rep, seed, |rep| scenario_scoped_source(seed, rep));
        }
    }
    // full stack: an unmodified Discv5 inside a simulated network, judged on the wire and the API
    super::sys::run_mixed(p, super::sys::Focus::C13, 0x5C13_0000, 1600, 100000, &mut rep);
    rep
}

pub fn scenario_c19(seed: u64, rep: &mut Report) {
    let mut rng = Rng::new(seed);
    let mut w = Workload::random(&mut rng);
    // long sessions with many re-keys; few losses so that traffic volume is high
    w.steps = 60 + rng.usize(200);
    w.faults.drop = *rng.pick(&[0u64, 0, 30]);
    w.lose_sessions = true;
    w.bursts = true;
    w.garbage = rng.bool();
    w.nodes_lies = false;
    w.silent_peers = false;
    let e = run_workload(seed, &w);
    rep.evaluations += 1;
    check_c19(&e, &w, seed, rep);
    if rep.want_sample() {
        let keys: usize = e.peers.iter().map(|p| p.mon_keys.len()).sum();
        rep.sample(json!({"scenario_seed": seed.to_string(), "workload": w.json(), "session_keys": keys, "datagrams": e.trace.iter().filter(|t| matches!(t.ev, Ev::Sent { .. })).count()}));
    }
}

pub fn run_c19(p: &Params) -> Report {
    let mut rep = Report::new("C19");
    if let Some(r) = &p.replay {
        if super::sys::replay(r, &mut rep) {
            return rep;
        }
    }
    if let Some(seed) = replay_seed(p) {
        scenario_c19(seed, &mut rep);
        return rep;
    }
    let n = p.budget(600, 60_000);
    for i in 0..n {
        let seed = p.shard_seed(0x19_0000 + i);
        crate::util::guarded(&mut rep, seed, |rep| scenario_c19(seed, rep));
    }
    // full stack: an unmodified Discv5 inside a simulated network, judged on the wire and the API
    super::sys::run_mixed(p, super::sys::Focus::C19, 0x5C19_0000, 1600, 100000, &mut rep);
    rep
}
