//! C07 — routing-table structural invariants.
//!
//! After every operation the monitor walks `buckets_iter()` and compares with the snapshot taken
//! before the operation. The value type carries the node id, so the pending node's key is readable
//! through `pending().value()` without any hook.
//!
//! Checked at every step:
//!  * <= 16 nodes per bucket; node in bucket `log2(local, id) - 1`; local id absent;
//!  * no id twice (pending slot included);
//!  * disconnected block strictly before connected block;
//!  * inside each block, order == order of the shadow's last *placement stamp* (logical clock
//!    bumped on insertion, on every status report and on promotion from pending);
//!  * connected incoming nodes <= limit;
//!  * pending life cycle: a pending node becomes present in a bucket that was full only at an
//!    instant that can be >= creation + timeout, evicting exactly the node that was at position 0
//!    and disconnected; and it is gone (not applied) once the position-0 node reported connected.

use super::kb::{self, Id, IdPool};
use crate::util::{hx, Params, Report, Rng};
use discv5::enr::NodeId;
use discv5::kbucket::{InsertResult, KBucketsTable};
use discv5::ConnectionState;
use serde_json::{json, Value};
use std::collections::HashMap;
use std::time::{Duration, Instant};

#[derive(Clone, Debug, PartialEq, Eq)]
pub struct Val {
    id: Id,
    ver: u32,
}

type Table = KBucketsTable<NodeId, Val>;

#[derive(Clone, Debug, PartialEq, Eq)]
struct NodeSnap {
    id: Id,
    connected: bool,
    incoming: bool,
    ver: u32,
}

#[derive(Clone, Debug, Default, PartialEq, Eq)]
struct BucketSnap {
    nodes: Vec<NodeSnap>,
    pending: Option<NodeSnap>,
}

fn snapshot(table: &Table) -> Vec<BucketSnap> {
    table
        .buckets_iter()
        .map(|b| BucketSnap {
            nodes: b
                .iter()
                .map(|n| NodeSnap {
                    id: n.key.preimage().raw(),
                    connected: n.status.is_connected(),
                    incoming: n.status.is_incoming(),
                    ver: n.value.ver,
                })
                .collect(),
            pending: b.pending().map(|p| NodeSnap {
                id: p.value().id,
                connected: p.status().is_connected(),
                incoming: p.status().is_incoming(),
                ver: p.value().ver,
            }),
        })
        .collect()
}

#[derive(Clone, Debug)]
enum Op {
    Insert { id: Id, ver: u32, connected: bool, incoming: bool },
    UpdateNode { id: Id, ver: u32, state: Option<bool> },
    UpdateStatus { id: Id, connected: bool, incoming: Option<bool> },
    Remove { id: Id },
    Entry { id: Id },
    Iter,
    Closest { target: Id, take: usize },
    ByDistances { ds: Vec<u64>, max: usize },
    TakeApplied,
    Sleep { ms: u64 },
}

impl Op {
    fn json(&self) -> Value {
        match self {
            Op::Insert { id, ver, connected, incoming } => json!({"op": "insert_or_update", "id": hx(id), "ver": ver, "connected": connected, "incoming": incoming}),
            Op::UpdateNode { id, ver, state } => json!({"op": "update_node", "id": hx(id), "ver": ver, "state": state}),
            Op::UpdateStatus { id, connected, incoming } => json!({"op": "update_node_status", "id": hx(id), "connected": connected, "incoming": incoming}),
            Op::Remove { id } => json!({"op": "remove", "id": hx(id)}),
            Op::Entry { id } => json!({"op": "entry", "id": hx(id)}),
            Op::Iter => json!({"op": "iter"}),
            Op::Closest { target, take } => json!({"op": "closest_keys", "target": hx(target), "take": take}),
            Op::ByDistances { ds, max } => json!({"op": "nodes_by_distances", "distances": ds, "max": max}),
            Op::TakeApplied => json!({"op": "take_applied_pending"}),
            Op::Sleep { ms } => json!({"op": "sleep", "ms": ms}),
        }
    }

    fn kind(&self) -> u8 {
        match self {
            Op::Insert { .. } => 0,
            Op::UpdateNode { .. } => 1,
            Op::UpdateStatus { .. } => 2,
            Op::Remove { .. } => 3,
            Op::Entry { .. } => 4,
            Op::Iter => 5,
            Op::Closest { .. } => 6,
            Op::ByDistances { .. } => 7,
            Op::TakeApplied => 8,
            Op::Sleep { .. } => 9,
        }
    }
}

fn gen_op(rng: &mut Rng, pool: &IdPool, short_timeout: bool, conn_pct: u64, pending_now: &[Id]) -> Op {
    // one operation in six is aimed at a node that is waiting in a pending slot right now
    let id = if !pending_now.is_empty() && rng.chance(1, 6) { *rng.pick(pending_now) } else { pool.any_id(rng) };
    match rng.below(100) {
        0..=39 => Op::Insert {
            id,
            ver: rng.below(4) as u32,
            connected: rng.below(100) < conn_pct,
            incoming: rng.bool(),
        },
        40..=49 => Op::UpdateNode {
            id,
            ver: rng.below(4) as u32,
            state: match rng.below(3) {
                0 => None,
                1 => Some(true),
                _ => Some(false),
            },
        },
        50..=69 => Op::UpdateStatus {
            id,
            connected: rng.below(100) < conn_pct.clamp(25, 75),
            incoming: match rng.below(3) {
                0 => None,
                1 => Some(true),
                _ => Some(false),
            },
        },
        70..=77 => Op::Remove { id },
        78..=82 => Op::Entry { id },
        83..=85 => Op::Iter,
        86..=89 => Op::Closest {
            target: if rng.bool() { id } else { rng.array() },
            take: *rng.pick(&[1usize, 3, 16, 1000]),
        },
        90..=93 => Op::ByDistances {
            ds: (0..1 + rng.usize(3))
                .map(|_| pool.buckets[rng.usize(pool.buckets.len())].0)
                .collect(),
            max: *rng.pick(&[1usize, 16, 64]),
        },
        94..=95 => Op::TakeApplied,
        _ => {
            if short_timeout {
                Op::Sleep { ms: 1 + rng.below(5) }
            } else {
                Op::TakeApplied
            }
        }
    }
}

struct Shadow {
    clock: u64,
    /// last placement stamp per present node
    stamp: HashMap<Id, u64>,
    /// creation interval of the current pending node per bucket: (earliest, latest)
    pending_created: HashMap<usize, (Id, Instant, Instant)>,
}

pub struct Cfg {
    pub max_incoming: usize,
    pub timeout: Duration,
}

/// Runs one operation sequence; returns true if a violation was reported.
pub fn scenario(seed: u64, _p: &Params, rep: &mut Report) {
    let mut rng = Rng::new(seed);
    let nbuckets = 1 + rng.usize(4);
    let pool = IdPool::new(&mut rng, nbuckets, 22, true);
    let max_incoming = rng.usize(17);
    let (timeout, tclass) = match rng.below(3) {
        0 => (Duration::ZERO, "elapsed"),
        1 => (Duration::from_secs(3600), "never"),
        _ => (Duration::from_millis(3), "mid-sequence"),
    };
    let short = tclass == "mid-sequence";
    let local = pool.local;
    let mut table: Table = KBucketsTable::new(kb::key(&local), timeout, max_incoming, None, None);
    let mut shadow = Shadow {
        clock: 0,
        stamp: HashMap::new(),
        pending_created: HashMap::new(),
    };
    let nops = 120 + rng.usize(200);
    // share of connected reports: mostly balanced, sometimes nearly all nodes stay disconnected
    // (whole buckets without a connected node) or nearly all are connected
    let conn_pct = *rng.pick(&[60u64, 60, 50, 8, 92]);
    let mut ops_log: Vec<Value> = Vec::new();
    let mut prev = snapshot(&table);
    let mut promotions = 0u64;
    let mut full_evictions = 0u64;
    let mut discards = 0u64;

    // a short scripted run of operations, started now and then between the random ones: a whole
    // bucket reports disconnected, a connected candidate arrives for it, the candidate's own status
    // changes while it waits, the timeout passes, and a member of the bucket reports again
    let mut script: std::collections::VecDeque<Op> = std::collections::VecDeque::new();
    for step in 0..nops {
        if script.is_empty() && step >= 50 && rng.chance(1, 25) {
            let (d, ids) = &pool.buckets[rng.usize(pool.buckets.len())];
            let b = &prev[(*d - 1) as usize];
            if b.nodes.len() == 16 {
                if rng.chance(2, 3) {
                    for n in &b.nodes {
                        script.push_back(Op::UpdateStatus { id: n.id, connected: false, incoming: None });
                    }
                }
                let outside: Vec<Id> = ids.iter().copied().filter(|i| !b.nodes.iter().any(|n| n.id == *i)).collect();
                if !outside.is_empty() {
                    let cand = *rng.pick(&outside);
                    script.push_back(Op::Insert { id: cand, ver: 0, connected: true, incoming: rng.bool() });
                    if rng.bool() {
                        script.push_back(Op::UpdateStatus { id: cand, connected: rng.chance(1, 4), incoming: None });
                    }
                    if rng.chance(1, 4) {
                        script.push_back(Op::Remove { id: b.nodes[rng.usize(16)].id });
                    }
                    script.push_back(Op::Sleep { ms: 4 });
                    script.push_back(Op::Entry { id: cand });
                    for _ in 0..2 {
                        let member = b.nodes[1 + rng.usize(15)].id;
                        script.push_back(Op::UpdateStatus { id: member, connected: rng.chance(1, 4), incoming: None });
                    }
                    rep.count("scripted_pending_runs");
                }
            }
        }
        let op = if let Some(op) = script.pop_front() {
            op
        } else if step < 50 {
            // fill phase: mostly insertions so that buckets become full early
            Op::Insert {
                id: pool.any_id(&mut rng),
                ver: 0,
                connected: rng.below(100) < conn_pct.min(50),
                incoming: rng.bool(),
            }
        } else {
            let pending_now: Vec<Id> = prev.iter().filter_map(|b| b.pending.as_ref().map(|n| n.id)).collect();
            gen_op(&mut rng, &pool, short, conn_pct, &pending_now)
        };
        rep.count(&format!("op_kind:{}", op.kind()));
        ops_log.push(op.json());
        let t_before = Instant::now();
        // ---- execute on the real table ----
        #[derive(Debug)]
        enum Outcome {
            Insert(String),
            Update(String),
            Bool(bool),
            None,
        }
        let outcome = match &op {
            Op::Insert { id, ver, connected, incoming } => {
                let r = table.insert_or_update(
                    &kb::key(id),
                    Val { id: *id, ver: *ver },
                    kb::status(*connected, *incoming),
                );
                Outcome::Insert(match r {
                    InsertResult::Failed(reason) => format!("Failed({reason:?})"),
                    other => format!("{other:?}").split([' ', '{']).next().unwrap().to_string(),
                })
            }
            Op::UpdateNode { id, ver, state } => {
                let r = table.update_node(
                    &kb::key(id),
                    Val { id: *id, ver: *ver },
                    state.map(|c| if c { ConnectionState::Connected } else { ConnectionState::Disconnected }),
                );
                Outcome::Update(format!("{r:?}"))
            }
            Op::UpdateStatus { id, connected, incoming } => {
                let r = table.update_node_status(
                    &kb::key(id),
                    if *connected { ConnectionState::Connected } else { ConnectionState::Disconnected },
                    incoming.map(|i| if i { discv5::ConnectionDirection::Incoming } else { discv5::ConnectionDirection::Outgoing }),
                );
                Outcome::Update(format!("{r:?}"))
            }
            Op::Remove { id } => Outcome::Bool(table.remove(&kb::key(id))),
            Op::Entry { id } => {
                let k = kb::key(id);
                let _ = table.entry(&k);
                Outcome::None
            }
            Op::Iter => {
                let _ = table.iter().count();
                Outcome::None
            }
            Op::Closest { target, take } => {
                let k = kb::key(target);
                let _ = table.closest_keys(&k).take(*take).count();
                Outcome::None
            }
            Op::ByDistances { ds, max } => {
                let _ = table.nodes_by_distances(ds, *max).len();
                Outcome::None
            }
            Op::TakeApplied => {
                while table.take_applied_pending().is_some() {}
                Outcome::None
            }
            Op::Sleep { ms } => {
                std::thread::sleep(Duration::from_millis(*ms));
                Outcome::None
            }
        };
        let t_after = Instant::now();
        let now = snapshot(&table);
        rep.count("ops");

        let witness = |what: &str, bucket: usize, prev: &[BucketSnap], now: &[BucketSnap], ops_log: &[Value]| {
            let show = |b: &BucketSnap| {
                json!({
                    "nodes": b.nodes.iter().map(|n| format!("{}:{}{}v{}", &hx(&n.id)[56..], if n.connected {"C"} else {"D"}, if n.incoming {"i"} else {"o"}, n.ver)).collect::<Vec<_>>(),
                    "pending": b.pending.as_ref().map(|n| format!("{}:{}{}v{}", &hx(&n.id)[56..], if n.connected {"C"} else {"D"}, if n.incoming {"i"} else {"o"}, n.ver)),
                })
            };
            json!({
                "scenario_seed": seed.to_string(), "step": step, "what": what, "bucket": bucket,
                "max_incoming": max_incoming, "pending_timeout_class": tclass,
                "before": show(&prev[bucket]), "after": show(&now[bucket]),
                "last_ops": ops_log.iter().rev().take(6).rev().cloned().collect::<Vec<_>>(),
            })
        };

        // ---- promotion stamps first (apply_pending runs before the operation's own effect) ----
        shadow.clock += 1;
        let promo_clock = shadow.clock;
        shadow.clock += 1;
        let op_clock = shadow.clock;

        for (bi, (pb, nb)) in prev.iter().zip(now.iter()).enumerate() {
            if pb == nb {
                continue;
            }
            // structural invariants are checked below for all buckets; here: life cycle
            if let Some(pp) = &pb.pending {
                let now_present = nb.nodes.iter().any(|n| n.id == pp.id);
                let was_present = pb.nodes.iter().any(|n| n.id == pp.id);
                // an explicit insert_or_update of the pending id into a bucket with room is an
                // insertion, not a promotion
                let explicit_insert = matches!(&op, Op::Insert { id, .. } if *id == pp.id)
                    && pb.nodes.len() < 16;
                if now_present && !was_present && !explicit_insert {
                    promotions += 1;
                    rep.count("pending_promoted");
                    shadow.stamp.insert(pp.id, promo_clock);
                    let removed_by_op: Option<Id> = match &op {
                        Op::Remove { id } => Some(*id),
                        // a failed status/value update removes the node as well
                        Op::UpdateStatus { id, .. } | Op::UpdateNode { id, .. } | Op::Insert { id, .. } => Some(*id),
                        _ => None,
                    };
                    if pb.nodes.len() == 16 {
                        // which previous nodes are gone?
                        let gone: Vec<&NodeSnap> = pb
                            .nodes
                            .iter()
                            .filter(|n| !nb.nodes.iter().any(|m| m.id == n.id))
                            .collect();
                        // `remove(X)` frees a slot itself and then applies the pending node into
                        // that room: not an eviction.
                        let room_made_by_op = matches!(&op, Op::Remove { id } if gone.len() == 1 && gone[0].id == *id);
                        if !room_made_by_op {
                            full_evictions += 1;
                            rep.count("pending_applied_to_full_bucket");
                            // must evict exactly position 0, which must have been disconnected
                            let evicted_first = gone.iter().any(|g| g.id == pb.nodes[0].id);
                            let others_gone = gone
                                .iter()
                                .filter(|g| g.id != pb.nodes[0].id && Some(g.id) != removed_by_op)
                                .count();
                            if !evicted_first || others_gone > 0 {
                                rep.violation("C07:pending-evicted-wrong-node", format!("pending node entered a full bucket but the evicted node is not the one at position 0 (gone: {})", gone.len()), witness("evict", bi, &prev, &now, &ops_log));
                            } else if pb.nodes[0].connected {
                                rep.violation("C07:pending-evicted-connected", "pending node entered a full bucket evicting a connected node".into(), witness("evict-connected", bi, &prev, &now, &ops_log));
                            }
                            // timeout: definitely early iff latest possible `now` < earliest possible replace
                            if let Some((pid, created_earliest, _)) = shadow.pending_created.get(&bi) {
                                if *pid == pp.id && t_after < *created_earliest + timeout {
                                    rep.violation("C07:pending-applied-before-timeout", format!("pending node entered a full bucket {:?} after creation, timeout {:?}", t_after - *created_earliest, timeout), witness("early", bi, &prev, &now, &ops_log));
                                }
                            }
                        }
                    }
                }
                // discard rule: position-0 node was disconnected and has now reported connected
                if let Op::UpdateStatus { id, connected: true, .. }
                | Op::Insert { id, connected: true, .. }
                | Op::UpdateNode { id, state: Some(true), .. } = &op
                {
                    // Only a *full* bucket is constrained by the statement: with room in the bucket
                    // a due pending node is applied (without eviction) before the report is processed.
                    if pb.nodes.len() == 16 && pb.nodes[0].id == *id && !pb.nodes[0].connected {
                        let target_now = nb.nodes.iter().find(|n| n.id == *id);
                        if let Some(t) = target_now {
                            if t.connected {
                                discards += 1;
                                rep.count("pending_discard_expected");
                                let still_pending = nb.pending.as_ref().map(|p| p.id) == Some(pp.id);
                                if still_pending || now_present && !was_present {
                                    rep.violation("C07:pending-not-discarded", "the least-recently-active disconnected node reconnected but the pending node was kept/applied".into(), witness("discard", bi, &prev, &now, &ops_log));
                                }
                            }
                        }
                    }
                }
            }
            // new pending node created in this op?
            match (&pb.pending, &nb.pending) {
                (p, Some(np)) if p.as_ref().map(|x| x.id) != Some(np.id) => {
                    shadow.pending_created.insert(bi, (np.id, t_before, t_after));
                    rep.count("pending_created");
                    if nb.nodes.len() < 16 {
                        rep.violation("C07:pending-in-non-full-bucket", "a pending node was created for a bucket that is not full".into(), witness("pending-nonfull", bi, &prev, &now, &ops_log));
                    }
                }
                (_, None) => {
                    shadow.pending_created.remove(&bi);
                }
                _ => {}
            }
        }

        // ---- the operation's own placement stamp ----
        let target: Option<(Id, bool)> = match &op {
            Op::Insert { id, .. } => Some((*id, true)),
            Op::UpdateStatus { id, .. } => Some((*id, true)),
            Op::UpdateNode { id, state, .. } => Some((*id, state.is_some())),
            _ => None,
        };
        if let Some((id, repositions)) = target {
            let d = kb::log2(&local, &id);
            if d > 0 {
                let bi = (d - 1) as usize;
                let present_now = now[bi].nodes.iter().any(|n| n.id == id);
                let present_before = prev[bi].nodes.iter().any(|n| n.id == id);
                if present_now && (repositions || !present_before) {
                    shadow.stamp.insert(id, op_clock);
                }
            }
        }
        // forget stamps of nodes that left
        let present: std::collections::HashSet<Id> =
            now.iter().flat_map(|b| b.nodes.iter().map(|n| n.id)).collect();
        shadow.stamp.retain(|id, _| present.contains(id));

        // ---- structural invariants over all buckets that changed (and every 16th step: all) ----
        let mut seen: HashMap<Id, usize> = HashMap::new();
        for (bi, nb) in now.iter().enumerate() {
            if nb.nodes.is_empty() && nb.pending.is_none() {
                continue;
            }
            if nb.nodes.len() > 16 {
                rep.violation("C07:bucket-overfull", format!("bucket {bi} holds {} nodes", nb.nodes.len()), witness("overfull", bi, &prev, &now, &ops_log));
            }
            let mut seen_connected = false;
            let mut last_stamp_d = 0u64;
            let mut last_stamp_c = 0u64;
            let mut incoming_connected = 0usize;
            for n in nb.nodes.iter().chain(nb.pending.iter()) {
                if n.id == local {
                    rep.violation("C07:local-id-stored", "the local id is stored in the table".into(), witness("local", bi, &prev, &now, &ops_log));
                }
                if kb::log2(&local, &n.id) != bi as u64 + 1 {
                    rep.violation("C07:wrong-bucket", format!("node at log2 distance {} sits in bucket {bi}", kb::log2(&local, &n.id)), witness("wrong-bucket", bi, &prev, &now, &ops_log));
                }
                if seen.insert(n.id, bi).is_some() {
                    rep.violation("C07:duplicate-id", "a node id occurs twice (pending slot included)".into(), witness("duplicate", bi, &prev, &now, &ops_log));
                }
            }
            for n in &nb.nodes {
                if n.connected {
                    seen_connected = true;
                    if n.incoming {
                        incoming_connected += 1;
                    }
                } else if seen_connected {
                    rep.violation("C07:disconnected-after-connected", "a disconnected node follows a connected node".into(), witness("blocks", bi, &prev, &now, &ops_log));
                }
                match shadow.stamp.get(&n.id) {
                    Some(s) => {
                        let last = if n.connected { &mut last_stamp_c } else { &mut last_stamp_d };
                        if *s <= *last {
                            rep.violation("C07:order-within-block", format!("{} block of bucket {bi} is not ordered by last status report", if n.connected { "connected" } else { "disconnected" }), witness("order", bi, &prev, &now, &ops_log));
                        }
                        *last = *s;
                    }
                    None => {
                        rep.inconclusive(format!("monitor lost track of a node's placement stamp (seed {seed} step {step})"));
                    }
                }
            }
            if incoming_connected > max_incoming {
                rep.violation("C07:too-many-incoming", format!("bucket {bi} has {incoming_connected} connected incoming nodes, limit {max_incoming}"), witness("incoming", bi, &prev, &now, &ops_log));
            }
            if nb.nodes.len() == 16 {
                rep.count("full_bucket_observations");
            }
        }
        let _ = outcome;
        prev = now;
    }
    rep.evaluations += 1;
    let filled = prev.iter().filter(|b| b.nodes.len() == 16).count();
    let low = prev.iter().take(8).map(|b| b.nodes.len()).sum::<usize>();
    rep.count_n("nodes_in_buckets_0_7_at_end", low as u64);
    if promotions > 0 || filled > 0 {
        rep.fingerprint(&(max_incoming, tclass, promotions.min(6), full_evictions.min(4), discards.min(3), filled.min(4)));
    }
    if rep.want_sample() && promotions > 0 {
        rep.sample(json!({"scenario_seed": seed.to_string(), "max_incoming": max_incoming, "pending_timeout_class": tclass,
            "buckets": pool.buckets.iter().map(|(d, ids)| json!({"log2_distance": d, "candidate_ids": ids.len()})).collect::<Vec<_>>(),
            "ops": nops, "promotions": promotions, "first_ops": ops_log.iter().take(8).cloned().collect::<Vec<_>>() }));
    }
}

pub fn run(p: &Params) -> Report {
    let mut rep = Report::new("C07");
    if let Some(r) = &p.replay {
        if super::sys::replay(r, &mut rep) {
            return rep;
        }
    }
    if let Some(r) = &p.replay {
        let seed: u64 = r["replay"]["scenario_seed"].as_str().unwrap().parse().unwrap();
        scenario(seed, p, &mut rep);
        return rep;
    }
    let n = p.budget(4_000, 400_000);
    for i in 0..n {
        let seed = p.shard_seed(i);
        crate::util::guarded(&mut rep, seed, |rep| scenario(seed, p, rep));
    }
    // real concurrency: the live table of an unmodified Discv5 walked under its lock while user
    // threads call the public API and the node talks to a simulated network (real time)
    super::sys::run_concurrent(p, super::sys::Focus::C07, 0x5C07_0000, 64, 3_200, &mut rep);
    rep
}
