//! Shared routing-table workload: id crafting over all 256 buckets, operation alphabet, and
//! harness-side distance arithmetic (plain byte arrays, independent of the crate's `U256`).

use crate::util::Rng;
use discv5::enr::NodeId;
use discv5::kbucket::{ConnectionState, Key, NodeStatus};
use discv5::ConnectionDirection;

pub type Id = [u8; 32];

pub fn xor(a: &Id, b: &Id) -> Id {
    let mut r = [0u8; 32];
    for i in 0..32 {
        r[i] = a[i] ^ b[i];
    }
    r
}

/// log2 distance: 0 for equal ids, else 256 - leading zero bits of the xor.
pub fn log2(a: &Id, b: &Id) -> u64 {
    let d = xor(a, b);
    for (i, byte) in d.iter().enumerate() {
        if *byte != 0 {
            return (256 - (i * 8) as u64) - byte.leading_zeros() as u64;
        }
    }
    0
}

/// An id at log2 distance `dist` (1..=256) from `local`, with random lower bits.
pub fn id_at_distance(rng: &mut Rng, local: &Id, dist: u64) -> Id {
    debug_assert!((1..=256).contains(&dist));
    let mut d: Id = rng.array();
    let top = (dist - 1) as usize; // bit index counted from the least significant bit
    // clear all bits above `top`, set bit `top`
    for bit in (top + 1)..256 {
        let byte = 31 - bit / 8;
        d[byte] &= !(1u8 << (bit % 8));
    }
    let byte = 31 - top / 8;
    d[byte] |= 1u8 << (top % 8);
    xor(local, &d)
}

/// The xor-difference with exactly these low bits (for crafted targets).
pub fn id_from_low_bits(local: &Id, low: u128) -> Id {
    let mut d = [0u8; 32];
    d[16..].copy_from_slice(&low.to_be_bytes());
    xor(local, &d)
}

pub fn key(id: &Id) -> Key<NodeId> {
    NodeId::new(id).into()
}

pub fn status(connected: bool, incoming: bool) -> NodeStatus {
    NodeStatus {
        state: if connected {
            ConnectionState::Connected
        } else {
            ConnectionState::Disconnected
        },
        direction: if incoming {
            ConnectionDirection::Incoming
        } else {
            ConnectionDirection::Outgoing
        },
    }
}

/// A pool of candidate ids concentrated on a few buckets so that buckets fill up.
pub struct IdPool {
    pub local: Id,
    /// (bucket distance 1..=256, ids)
    pub buckets: Vec<(u64, Vec<Id>)>,
}

impl IdPool {
    /// `nbuckets` buckets: some of the lowest ones, some random ones, always including very high
    /// ones; `per_bucket` ids each (fewer where the bucket cannot hold that many distinct ids).
    pub fn new(rng: &mut Rng, nbuckets: usize, per_bucket: usize, low_bias: bool) -> Self {
        let local: Id = rng.array();
        let mut dists: Vec<u64> = Vec::new();
        while dists.len() < nbuckets {
            let d = if low_bias && rng.chance(1, 2) {
                rng.range(1, 10)
            } else if rng.chance(1, 4) {
                rng.range(250, 256)
            } else {
                rng.range(1, 256)
            };
            if !dists.contains(&d) {
                dists.push(d);
            }
        }
        let buckets = dists
            .into_iter()
            .map(|d| {
                let capacity: usize = if d >= 8 { usize::MAX } else { 1usize << (d - 1) };
                let want = per_bucket.min(capacity);
                let mut ids: Vec<Id> = Vec::new();
                let mut guard = 0;
                while ids.len() < want && guard < 10_000 {
                    guard += 1;
                    let id = id_at_distance(rng, &local, d);
                    if !ids.contains(&id) {
                        ids.push(id);
                    }
                }
                (d, ids)
            })
            .collect();
        IdPool { local, buckets }
    }

    pub fn any_id(&self, rng: &mut Rng) -> Id {
        let (_, ids) = rng.pick(&self.buckets);
        *rng.pick(ids)
    }

    pub fn all_ids(&self) -> Vec<Id> {
        self.buckets.iter().flat_map(|(_, v)| v.iter().copied()).collect()
    }
}
