//! Full-stack ("system") scenarios on the R3 rig: the unmodified `Discv5` inside a simulated
//! network, judged only at its two real boundaries (datagrams, public API). Every property whose
//! statement can be read off those boundaries has a monitor here; a property's check runs these
//! scenarios with its own monitor deciding (`Focus`) in addition to its dedicated rigs, so that
//! the interplay of service, handler and socket — which the R1/R2 split cuts apart — is watched
//! as well.

use super::kb::Id;
use crate::peer::codec_ref::{self, RefKind};
use crate::peer::crypto_ref;
use crate::peer::peersim::{build_enr, handshake_packet, random_packet, signing_key, EnrAddr, EphKey, HandshakeSpec, KeyGen, SignedData, Signer};
use crate::peer::rlp_ref::{self, RefMessage};
use crate::rig::r1::{v4, v6};
use crate::rig::r3::{log2, runtime, show, EvSum, Faults3, Stack3, WEv, World, WorldCfg, VICTIM_V4};
use crate::util::{hx, Report, Rng};
use discv5::enr::NodeId;
use discv5::{Enr, NodeContact};
use serde_json::{json, Value};
use parking_lot::Mutex;
use std::collections::{HashMap, HashSet};
use std::net::SocketAddr;
use std::time::Duration;
use tokio::task::JoinHandle;

#[derive(Clone, Copy, Debug, PartialEq, Eq, Hash)]
pub enum Focus {
    C01,
    C02,
    C03,
    C04,
    C07,
    C09,
    C10,
    C11,
    C12,
    C13,
    C14,
    C16,
    C17,
    C19,
    C20,
}

impl Focus {
    fn tag(&self) -> &'static str {
        match self {
            Focus::C01 => "C01",
            Focus::C02 => "C02",
            Focus::C03 => "C03",
            Focus::C04 => "C04",
            Focus::C07 => "C07",
            Focus::C16 => "C16",
            Focus::C09 => "C09",
            Focus::C10 => "C10",
            Focus::C11 => "C11",
            Focus::C12 => "C12",
            Focus::C13 => "C13",
            Focus::C14 => "C14",
            Focus::C17 => "C17",
            Focus::C19 => "C19",
            Focus::C20 => "C20",
        }
    }
}

#[derive(Debug)]
pub enum ApiOut {
    Nodes(Result<Vec<Enr>, String>),
    Talk(Result<Vec<u8>, String>),
    Pong(Result<(u64, std::net::IpAddr, u16), String>),
}

pub struct ApiCall {
    pub what: String,
    /// node the call is addressed to (direct requests)
    pub node: Option<usize>,
    pub target: Option<Id>,
    pub started: Duration,
    pub handle: Option<JoinHandle<ApiOut>>,
    pub done: Option<(Duration, ApiOut)>,
    pub payload: Vec<u8>,
    /// the caller gave up waiting (dropped the future): no outcome is owed to anybody
    pub abandoned: bool,
}

struct TalkCase {
    node_id: Id,
    req_id: Vec<u8>,
    body: Vec<u8>,
    delivered: Duration,
    /// what the application did: Some(payload) responded, None dropped
    action: Option<Option<Vec<u8>>>,
    acted: Duration,
}

struct ReqCase {
    at: Duration,
    node: usize,
    msg: RefMessage,
    via: &'static str,
    /// the datagram is encrypted under keys the node under test is known to hold, and no other
    /// handshake with that node was going on around it
    keys_held: bool,
    /// the node under test answered the carrying datagram with WHOAREYOU (it could not read it)
    challenged: bool,
    established_in_step: bool,
    table_before: Vec<(Id, Vec<u8>)>,
    table_after: Vec<(Id, Vec<u8>)>,
    local_seq: u64,
    trace_pos: usize,
}

pub struct Sys {
    pub w: World,
    pub seed: u64,
    pub focus: Focus,
    pub stack: Stack3,
    pub added: HashSet<Id>,
    /// the records the user handed to add_enr
    pub added_raw: HashSet<Vec<u8>>,
    debug_bans: usize,
    /// the scenario proper is over (postlude running): the step monitors are off
    closed: bool,
    pub established: HashSet<Id>,
    table_prev: Vec<(Id, Enr, bool, bool)>,
    records_seen: HashMap<Id, (u64, Vec<u8>)>,
    pub apis: Vec<ApiCall>,
    talk: Vec<TalkCase>,
    reqs: Vec<ReqCase>,
    held_talk: Vec<(u64, discv5::TalkRequest, Option<Vec<u8>>)>,
    pub steps: u64,
    trace_mark: usize,
    pub max_nodes_response: usize,
    /// how the application treats TALK requests: 0 respond at once, 1 drop at once, 2 mixed with holds
    pub talk_policy: u8,
    exempt_seen: u64,
    /// C17: every PONG delivered to the node under test: (time, voter, address reported, voter was
    /// a connected outgoing table entry at the previous quiescent point)
    votes: Vec<(Duration, Id, SocketAddr, bool)>,
    enr_prev: Option<Enr>,
    pongs_taken: HashSet<(usize, Vec<u8>)>,
    pub vote_min: usize,
    pub vote_duration: Duration,
    pub address_updates: u64,
}

fn table_ids(t: &[(Id, Enr, bool, bool)]) -> Vec<(Id, Vec<u8>)> {
    t.iter().map(|(id, e, _, _)| (*id, rlp_ref::encode_record(e))).collect()
}

impl Sys {
    pub async fn start(seed: u64, focus: Focus, cfg: WorldCfg, max_nodes_response: usize) -> Sys {
        let stack = cfg.stack;
        let w = World::start(seed, cfg).await;
        Sys {
            w,
            seed,
            focus,
            stack,
            added: HashSet::new(),
            added_raw: HashSet::new(),
            debug_bans: 0,
            closed: false,
            established: HashSet::new(),
            table_prev: Vec::new(),
            records_seen: HashMap::new(),
            apis: Vec::new(),
            talk: Vec::new(),
            reqs: Vec::new(),
            held_talk: Vec::new(),
            steps: 0,
            trace_mark: 0,
            max_nodes_response,
            talk_policy: 2,
            exempt_seen: 0,
            votes: Vec::new(),
            enr_prev: None,
            pongs_taken: HashSet::new(),
            vote_min: 10,
            vote_duration: Duration::from_secs(300),
            address_updates: 0,
        }
    }

    fn witness(&self, extra: Value) -> Value {
        json!({"scenario_seed": self.seed.to_string(), "kind": "system", "focus": self.focus.tag(), "detail": extra, "trace_tail": self.w.dump(40)})
    }

    fn flag(&self, rep: &mut Report, f: Focus, sig: &str, what: String, extra: Value) {
        if f == self.focus {
            rep.violation(sig, what, self.witness(extra));
        }
    }

    pub fn add_enr(&mut self, i: usize) -> bool {
        let enr = self.w.enr(i);
        let ok = self.w.discv5.add_enr(enr).is_ok();
        if ok {
            self.added.insert(self.w.id(i));
            self.added_raw.insert(self.w.nodes[i].sim.ident.record_bytes());
        }
        ok
    }

    /* ------------------------------ API calls ------------------------------ */

    pub fn api_find_node(&mut self, target: Id) {
        let fut = self.w.discv5.find_node(NodeId::new(&target));
        let h = tokio::spawn(async move { ApiOut::Nodes(fut.await.map_err(|e| format!("{e:?}"))) });
        self.apis.push(ApiCall { what: "find_node".into(), node: None, target: Some(target), started: self.w.now(), handle: Some(h), done: None, payload: vec![], abandoned: false });
    }

    pub fn api_find_node_predicate(&mut self, target: Id, want: usize) {
        let fut = self.w.discv5.find_node_predicate(NodeId::new(&target), Box::new(|e: &Enr| e.seq() % 2 == 0), want);
        let h = tokio::spawn(async move { ApiOut::Nodes(fut.await.map_err(|e| format!("{e:?}"))) });
        self.apis.push(ApiCall { what: format!("find_node_predicate {want}"), node: None, target: Some(target), started: self.w.now(), handle: Some(h), done: None, payload: vec![], abandoned: false });
    }

    pub fn api_talk(&mut self, i: usize, payload: Vec<u8>) {
        let Ok(contact) = NodeContact::try_from_enr(self.w.enr(i), discv5::IpMode::DualStack) else { return };
        let fut = self.w.discv5.talk_req(contact, b"sys".to_vec(), payload.clone());
        let h = tokio::spawn(async move { ApiOut::Talk(fut.await.map_err(|e| format!("{e:?}"))) });
        self.apis.push(ApiCall { what: "talk_req".into(), node: Some(i), target: None, started: self.w.now(), handle: Some(h), done: None, payload, abandoned: false });
    }

    pub fn api_ping(&mut self, i: usize) {
        let fut = self.w.discv5.send_ping(self.w.enr(i));
        let h = tokio::spawn(async move { ApiOut::Pong(fut.await.map(|p| (p.enr_seq, p.ip, p.port)).map_err(|e| format!("{e:?}"))) });
        self.apis.push(ApiCall { what: "send_ping".into(), node: Some(i), target: None, started: self.w.now(), handle: Some(h), done: None, payload: vec![], abandoned: false });
    }

    /// The caller of a pending call stops waiting for it (drops the future).
    pub fn api_abandon_one(&mut self, rng: &mut Rng) -> bool {
        let pending: Vec<usize> = self.apis.iter().enumerate().filter(|(_, a)| a.done.is_none() && a.handle.as_ref().map(|h| !h.is_finished()).unwrap_or(false)).map(|(k, _)| k).collect();
        if pending.is_empty() {
            return false;
        }
        let k = *rng.pick(&pending);
        if let Some(h) = self.apis[k].handle.take() {
            h.abort();
        }
        self.apis[k].abandoned = true;
        true
    }

    /// The user knows node `i` only by public key and socket (a multiaddr) and asks for its record.
    pub fn api_request_enr(&mut self, i: usize) {
        let pk = self.w.nodes[i].sim.ident.public().to_encoded_point(true).as_bytes().to_vec();
        let ma = crate::util::multiaddr_of(&pk, &self.w.nodes[i].sim.addr());
        let fut = self.w.discv5.request_enr(ma.clone());
        let h = tokio::spawn(async move { ApiOut::Nodes(fut.await.map(|e| vec![e]).map_err(|e| format!("{e:?}"))) });
        self.apis.push(ApiCall { what: format!("request_enr {ma}"), node: Some(i), target: None, started: self.w.now(), handle: Some(h), done: None, payload: vec![], abandoned: false });
    }

    pub fn api_find_designated(&mut self, i: usize, distances: Vec<u64>) {
        let fut = self.w.discv5.find_node_designated_peer(self.w.enr(i), distances.clone());
        let h = tokio::spawn(async move { ApiOut::Nodes(fut.await.map_err(|e| format!("{e:?}"))) });
        self.apis.push(ApiCall { what: format!("find_node_designated_peer {distances:?}"), node: Some(i), target: None, started: self.w.now(), handle: Some(h), done: None, payload: vec![], abandoned: false });
    }

    async fn reap(&mut self) {
        let now = self.w.now();
        for a in self.apis.iter_mut() {
            if a.done.is_none() && a.handle.as_ref().map(|h| h.is_finished()).unwrap_or(false) {
                let h = a.handle.take().unwrap();
                if let Ok(out) = h.await {
                    a.done = Some((now, out));
                }
            }
        }
    }

    pub fn open_calls(&self) -> usize {
        self.apis.iter().filter(|a| a.done.is_none() && !a.abandoned).count()
    }

    /* ------------------------------- stepping ------------------------------- */

    pub async fn tick(&mut self, rep: &mut Report) -> usize {
        let n = self.w.step().await;
        self.steps += 1;
        self.reap().await;
        self.after_step(rep);
        self.w.end_step();
        n
    }

    pub async fn advance(&mut self, d: Duration, rep: &mut Report) {
        let deadline = self.w.now() + d;
        let quantum = (self.w.request_timeout / 8).max(Duration::from_millis(2));
        while self.w.now() < deadline {
            let n = self.tick(rep).await;
            if n == 0 {
                let now = self.w.now();
                let next = deadline.min(now + quantum);
                if next > now + Duration::from_millis(1) {
                    tokio::time::sleep(next - now - Duration::from_millis(1)).await;
                }
            }
        }
    }

    /// Until every API call has returned and the network is idle (bounded).
    pub async fn settle_all(&mut self, bound: Duration, rep: &mut Report) {
        let begin = self.w.now();
        let deadline = begin + bound;
        let window = self.w.request_timeout * (self.w.request_retries as u32 + 1) + Duration::from_millis(500);
        let mut quiet = 0;
        while self.w.now() < deadline {
            let n = self.tick(rep).await;
            let now = self.w.now();
            // the node's own exchanges (record updates, liveness pings) have ended too — or it
            // pings so often that it never falls silent
            let silent = self.w.all_sent.last().map(|(t, _, _)| *t + window < now).unwrap_or(true) || now > begin + Duration::from_secs(30);
            if n == 0 && silent && self.w.idle() && self.open_calls() == 0 && self.held_talk.is_empty() {
                quiet += 1;
                if quiet > 3 {
                    break;
                }
            } else {
                quiet = 0;
            }
            if n == 0 {
                let quantum = (self.w.request_timeout / 8).max(Duration::from_millis(2));
                tokio::time::sleep(quantum).await;
            }
        }
    }

    /* ------------------------------- monitors ------------------------------- */

    /// Did the node under test send anything to `addr`, or receive anything from it, within the
    /// last `horizon`? (A request's timer restarts with every transmission and with every
    /// partial answer; a challenge lives one timeout.)
    fn recent_exchange(&self, addr: &SocketAddr, horizon: Duration) -> bool {
        let now = self.w.now();
        // datagrams sent during an idle jump are stamped with their own time but logged at the
        // next collection point, so the log is only roughly ordered: scan a wider window
        let slack = Duration::from_millis(600);
        self.w.trace.iter().rev().take_while(|(t, _)| *t + horizon + slack >= now).any(|(t, e)| {
            *t + horizon >= now
                && match e {
                    WEv::Sent { to, .. } => to == addr,
                    WEv::Injected { from, .. } => from == addr,
                    _ => false,
                }
        })
    }

    fn after_step(&mut self, rep: &mut Report) {
        if self.closed {
            return;
        }
        let now = self.w.now();
        if std::env::var("DV5_DEBUG").is_ok() {
            let bans = discv5::verif::ban_list_snapshot();
            let n = bans.ban_nodes.len() + bans.ban_ips.len();
            if n != self.debug_bans {
                eprintln!("DEBUG {:?}: ban list now {:?} / {:?} after {:?}", now, bans.ban_ips.keys().collect::<Vec<_>>(), bans.ban_nodes.keys().map(|k| hx(&k.raw()[..4])).collect::<Vec<_>>(), self.w.last_injected.as_ref().map(|i| (i.from, i.tag.label.clone())));
                self.debug_bans = n;
            }
        }
        let new_trace: Vec<(Duration, WEv)> = self.w.trace[self.trace_mark..].to_vec();
        self.trace_mark = self.w.trace.len();
        // events of this step
        let mut established_now: Vec<Id> = Vec::new();
        for (_, e) in self.w.events.iter().rev().take_while(|(t, _)| *t >= now) {
            if let EvSum::Established(id, _, _) = e {
                established_now.push(*id);
            }
        }
        for id in &established_now {
            self.established.insert(*id);
        }
        // ---- C03: a handshake packet that was accepted once (or not) is injected again ----
        if let Some(inj) = &self.w.last_injected {
            if inj.tag.via == "replayed-handshake" {
                rep.count("sys_replayed_handshakes");
                if !established_now.is_empty() {
                    let label = inj.tag.label.clone();
                    self.flag(rep, Focus::C03, "C03:replayed-handshake-accepted", format!("a session was announced in the step whose only input was a replayed handshake packet: {label}"), json!({}));
                }
            }
            if inj.tag.via == "replayed" {
                rep.count("sys_replayed_datagrams");
            }
            if inj.tag.via == "corrupted" {
                rep.count("sys_corrupted_datagrams");
            }
        }
        let table = self.w.table();

        // ---- C12: who is in the table, and with which record ----
        for (id, enr, _connected, _incoming) in &table {
            if *id == self.w.victim_id {
                self.flag(rep, Focus::C12, "C12:local-node-in-table", "the local node is a routing-table entry".into(), json!({}));
            }
            if !self.added.contains(id) && !self.established.contains(id) {
                self.flag(rep, Focus::C12, "C12:entry-without-session-or-add", format!("node {} is in the routing table although no session with it was ever established and the user never added it", hx(&id[..4])), json!({"node": hx(id)}));
            }
            let contactable = match self.stack {
                Stack3::V4 => enr.udp4_socket().is_some(),
                Stack3::Dual => enr.udp4_socket().is_some() || enr.udp6_socket().is_some(),
            };
            if !contactable {
                self.flag(rep, Focus::C12, "C12:entry-not-contactable", format!("entry {} has no address usable in this IP mode", hx(&id[..4])), json!({"node": hx(id)}));
            }
            let raw = rlp_ref::encode_record(enr);
            if let Some((seq, old)) = self.records_seen.get(id) {
                if *old != raw && enr.seq() <= *seq {
                    self.flag(rep, Focus::C12, "C12:record-replaced-without-higher-seq", format!("the stored record of {} (seq {seq}) was replaced by another record of seq {}", hx(&id[..4]), enr.seq()), json!({"node": hx(id)}));
                }
            }
            // a record that entered the table in a step whose only input was that node's own
            // handshake packet came in through an incoming session: it must name the address
            // the packet came from
            let stored_now = self.records_seen.get(id).map(|(_, old)| *old != raw).unwrap_or(true);
            if stored_now && self.stack == Stack3::V4 && !self.added_raw.contains(&raw) {
                if let Some(inj) = &self.w.last_injected {
                    let from_this_node = inj.node.is_some() && inj.node == self.w.node_by_id(id);
                    if inj.tag.via == "handshake" && from_this_node && !matches!(inj.tag.msg, Some(RefMessage::Nodes { .. })) {
                        rep.count("sys_records_stored_by_incoming_handshake");
                        let src = inj.from;
                        if enr.udp4_socket().map(SocketAddr::V4) != Some(src) {
                            self.flag(rep, Focus::C12, "C12:incoming-session-stored-foreign-address", format!("the handshake packet of node {} from {src} put a record advertising {:?} into the table", hx(&id[..4]), enr.udp4_socket()), json!({"node": hx(id)}));
                        }
                    }
                }
            }
            self.records_seen.insert(*id, (enr.seq(), raw));
            // admission (the entry is new): a later record learnt from other nodes' NODES answers
            // may name any address
            let newly_admitted = !self.table_prev.iter().any(|(pid, ..)| pid == id);
            if self.stack == Stack3::V4 && !self.added.contains(id) && newly_admitted {
                if let Some(i) = self.w.node_by_id(id) {
                    let src = self.w.nodes[i].sim.addr();
                    if enr.udp4_socket().map(SocketAddr::V4) != Some(src) {
                        self.flag(rep, Focus::C12, "C12:admitted-with-foreign-address", format!("node {} was admitted with a record advertising {:?} although all its packets came from {src}", hx(&id[..4]), enr.udp4_socket()), json!({"node": hx(id)}));
                    }
                }
            }
        }
        rep.max("sys_table_size", table.len() as u64);
        // "replaces a stored record" is about entries that stayed in the table: a node that was
        // removed and admitted again later may come back with whatever record it was dialled with
        let present: HashSet<Id> = table.iter().map(|(id, ..)| *id).collect();
        self.records_seen.retain(|id, _| present.contains(id));

        // ---- request cases (C14): what was the table when a request arrived ----
        if let Some(inj) = self.w.last_injected.clone() {
            if let (Some(i), Some(m)) = (inj.node, inj.tag.msg.clone()) {
                if m.is_request() && (inj.tag.via == "message" || inj.tag.via == "handshake") {
                    let challenged = new_trace.iter().any(|(_, e)| matches!(e, WEv::Sent { node: Some(n), kind: "whoareyou", .. } if *n == i));
                    let nid = self.w.id(i);
                    let n = &self.w.nodes[i];
                    let margin = self.w.request_timeout * 2;
                    let keys_held = match inj.tag.gen {
                        Some(g) => {
                            // ... and the node under test has not challenged that peer since (a
                            // WHOAREYOU means it dropped or never had the session)
                            let since = n.gen_created.get(g).copied().unwrap_or(Duration::ZERO);
                            let challenged_since = self.w.trace.iter().rev().take_while(|(t, _)| *t + Duration::from_millis(600) >= since).any(|(t, e)| *t >= since && matches!(e, WEv::Sent { node: Some(k), kind: "whoareyou", .. } if *k == i));
                            !challenged_since && g + 1 == n.gen_created.len() && n.gen_at_victim.get(g).copied().unwrap_or(false) && (g == 0 || n.gen_created[g] > n.gen_created[g - 1] + margin)
                        }
                        None => false,
                    };
                    self.reqs.push(ReqCase {
                        at: now,
                        node: i,
                        msg: m,
                        via: inj.tag.via,
                        keys_held,
                        challenged,
                        established_in_step: established_now.contains(&nid),
                        table_before: table_ids(&self.table_prev),
                        table_after: table_ids(&table),
                        local_seq: self.w.discv5.local_enr().seq(),
                        trace_pos: self.w.trace.len(),
                    });
                }
            }
        }

        // ---- C20: the application ----
        let inbox: Vec<(Duration, discv5::TalkRequest)> = std::mem::take(&mut self.w.talk_inbox);
        for (at, t) in inbox {
            let case = TalkCase { node_id: t.node_id().raw(), req_id: t.id().0.clone(), body: t.body().to_vec(), delivered: at, action: None, acted: at };
            let idx = self.talk.len();
            self.talk.push(case);
            let mut payload = t.body().to_vec();
            payload.reverse();
            payload.push(0x5A);
            let choice = match self.talk_policy {
                0 => 0,
                1 => 1,
                _ => self.w.rng.below(4),
            };
            match choice {
                0 => {
                    let _ = t.respond(payload.clone());
                    self.talk[idx].action = Some(Some(payload));
                }
                1 => {
                    drop(t);
                    self.talk[idx].action = Some(None);
                }
                2 => self.held_talk.push((self.steps + 1 + self.w.rng.below(40), t, Some(payload))),
                _ => self.held_talk.push((self.steps + 1 + self.w.rng.below(40), t, None)),
            }
        }
        let due: Vec<usize> = self.held_talk.iter().enumerate().filter(|(_, h)| h.0 <= self.steps).map(|(k, _)| k).collect();
        for k in due.into_iter().rev() {
            let (_, t, action) = self.held_talk.remove(k);
            let key = (t.node_id().raw(), t.id().0.clone());
            let idx = self.talk.iter().rposition(|c| c.action.is_none() && (c.node_id, c.req_id.clone()) == key);
            self.w.note(format!("application {} held TALKREQ#{}", if action.is_some() { "answers" } else { "drops" }, hx(&t.id().0)));
            match action.clone() {
                Some(p) => {
                    let r = t.respond(p);
                    if r.is_err() {
                        self.w.note(format!("respond returned {r:?}"));
                    }
                }
                None => drop(t),
            }
            if let Some(idx) = idx {
                self.talk[idx].action = Some(action);
                self.talk[idx].acted = now;
            }
        }

        // ---- C17: votes and address changes ----
        if let Some(inj) = self.w.last_injected.clone() {
            if let (Some(i), Some(RefMessage::Pong { id: pong_id, ip, port, .. })) = (inj.node, inj.tag.msg.clone()) {
                // the PONG is a vote only if its PING is still waiting for it: a transmission of
                // that PING left at most one request timeout ago and no PONG was taken for it yet
                let waiting = self.w.trace.iter().rev().take_while(|(t, _)| *t + self.w.request_timeout + Duration::from_millis(600) >= now).any(|(t, e)| {
                    *t + self.w.request_timeout >= now && matches!(e, WEv::Sent { node: Some(n), msg: Some(RefMessage::Ping { id, .. }), .. } if *n == i && *id == pong_id)
                }) && self.pongs_taken.insert((i, pong_id.clone()));
                let addr = if !waiting {
                    None
                } else {
                    match ip.len() {
                    4 => Some(SocketAddr::new(std::net::IpAddr::V4(std::net::Ipv4Addr::new(ip[0], ip[1], ip[2], ip[3])), port)),
                    16 => {
                        let mut b = [0u8; 16];
                        b.copy_from_slice(&ip);
                        Some(SocketAddr::new(std::net::IpAddr::V6(std::net::Ipv6Addr::from(b)), port))
                    }
                    _ => None,
                    }
                };
                if let Some(addr) = addr {
                    let nid = self.w.id(i);
                    let eligible = self.table_prev.iter().any(|(id, _, connected, incoming)| *id == nid && *connected && !*incoming);
                    self.votes.push((now, nid, addr, eligible));
                }
            }
        }
        let enr_now = self.w.discv5.local_enr();
        for fam6 in [false, true] {
        if let Some(prev) = self.enr_prev.clone() {
            let before = if fam6 { prev.udp6_socket().map(SocketAddr::V6) } else { prev.udp4_socket().map(SocketAddr::V4) };
            let after = if fam6 { enr_now.udp6_socket().map(SocketAddr::V6) } else { enr_now.udp4_socket().map(SocketAddr::V4) };
            if before != after {
                self.address_updates += 1;
                rep.count("sys_address_updates");
                if fam6 {
                    rep.count("sys_address_updates_ipv6");
                }
                match after {
                    None => self.flag(rep, Focus::C17, "C17:address-removed-by-pong", "the UDP address disappeared from the local record".into(), json!({})),
                    Some(a) => {
                        // What each voter's stored vote can be. Single stack: the latest vote it
                        // cast while it was a connected outgoing table entry. Dual stack: votes of
                        // other peers are taken too while a family lacks votes, so any later vote
                        // of that voter may or may not have replaced it.
                        let maybe_counted = self.stack == Stack3::Dual;
                        let mut stored: HashMap<Id, Vec<SocketAddr>> = HashMap::new();
                        for (_, v, addr, eligible) in &self.votes {
                            if addr.is_ipv6() != fam6 {
                                continue;
                            }
                            if *eligible {
                                stored.insert(*v, vec![*addr]);
                            } else if maybe_counted {
                                stored.entry(*v).or_default().push(*addr);
                            }
                        }
                        let support = stored.values().filter(|c| c.contains(&a)).count();
                        let mut latest: HashMap<Id, (Duration, SocketAddr)> = HashMap::new();
                        for (v, c) in &stored {
                            // surely stored: every possibility is the same address
                            if !c.is_empty() && c.iter().all(|x| *x == c[0]) && (!maybe_counted || self.votes.iter().any(|(_, w, x, e)| w == v && *e && *x == c[0])) {
                                latest.insert(*v, (now, c[0]));
                            }
                        }
                        let alive = |t: &Duration| *t + self.vote_duration > now;
                        let log: Vec<String> = self.votes.iter().rev().take(40).map(|(t, v, x, e)| format!("{:?} {} votes {x} eligible={e}", t, hx(&v[..4]))).collect();
                        if support < self.vote_min {
                            self.flag(rep, Focus::C17, "C17:update-below-minimum", format!("the address changed to {a} backed by {support} current votes of eligible peers, the minimum is {}", self.vote_min), json!({"votes": log}));
                        }
                        let mut rivals: HashMap<SocketAddr, usize> = HashMap::new();
                        for (t, x) in latest.values() {
                            if *x != a && alive(t) {
                                *rivals.entry(*x).or_default() += 1;
                            }
                        }
                        for (b, n) in &rivals {
                            if *n > 0 && *n >= ((support as f64) * 0.7).round() as usize {
                                self.flag(rep, Focus::C17, "C17:update-without-clear-majority", format!("the address changed to {a} ({support} votes) although rival {b} has {n} current votes"), json!({"votes": log}));
                            }
                        }
                        if enr_now.seq() <= prev.seq() {
                            self.flag(rep, Focus::C17, "C17:seq-not-increased", "the record changed without a higher sequence number".into(), json!({}));
                        }
                        if !enr_now.verify() {
                            self.flag(rep, Focus::C17, "C17:record-signature-invalid", "the updated record does not verify".into(), json!({}));
                        }
                        let announced = self.w.events.iter().rev().take_while(|(t, _)| *t >= now).any(|(_, e)| matches!(e, EvSum::SocketUpdated(x) if *x == a));
                        if !announced {
                            self.flag(rep, Focus::C17, "C17:update-not-announced", "the address change was not announced as an event".into(), json!({}));
                        }
                    }
                }
            }
        }
        }
        self.enr_prev = Some(enr_now);

        // ---- C13: exempt addresses are addresses this node is waiting for ----
        if let Some(ex) = self.w.wire.expected_responses() {
            // an exemption lives from a transmission (request, retransmission, WHOAREYOU) until the
            // answer or the timeout that follows that transmission
            let horizon = self.w.request_timeout + Duration::from_millis(50);
            for (addr, n) in &ex {
                if *n == 0 {
                    continue;
                }
                self.exempt_seen += 1;
                let recent = self.recent_exchange(addr, horizon);
                if !recent && std::env::var("DV5_DEBUG").is_ok() {
                    let last: Vec<String> = self.w.trace.iter().rev().filter(|(_, e)| matches!(e, WEv::Sent { to, .. } if to == addr) || matches!(e, WEv::Injected { from, .. } if from == addr)).take(3).map(|(t, _)| format!("{t:?}")).collect();
                    eprintln!("now {now:?} horizon {horizon:?} addr {addr} last exchanges {last:?} trace_len {}", self.w.trace.len());
                }
                if !recent {
                    self.flag(rep, Focus::C13, "C13:exempt-without-outstanding-exchange", format!("{addr} is exempt from the packet filter ({n}) although nothing was sent to it within the last {horizon:?}"), json!({"addr": addr.to_string(), "count": n}));
                }
            }
        }
        self.table_prev = table;
    }

    /// End-of-scenario judgement over the recorded boundary history.
    pub fn finish(&mut self, rep: &mut Report) {
        let vid = self.w.victim_id;
        // everything the node under test sent to node i, decrypted by the monitor
        let mut sent_to: HashMap<usize, Vec<(usize, Duration, RefMessage, usize)>> = HashMap::new();
        for (pos, (at, e)) in self.w.trace.iter().enumerate() {
            if let WEv::Sent { node: Some(i), msg: Some(m), len, .. } = e {
                sent_to.entry(*i).or_default().push((pos, *at, m.clone(), *len));
            }
        }
        // ---- wire size (C14) over every datagram ----
        for (_, to, b) in &self.w.all_sent {
            if b.len() > 1280 {
                self.flag(rep, Focus::C14, "C14:datagram-exceeds-1280", format!("a datagram of {} bytes was sent to {to}", b.len()), json!({"len": b.len()}));
            }
        }
        // ---- C14: served requests ----
        let reqs = std::mem::take(&mut self.reqs);
        for c in &reqs {
            let answers: Vec<&(usize, Duration, RefMessage, usize)> = sent_to.get(&c.node).map(|v| v.iter().filter(|(pos, _, m, _)| *pos >= c.trace_pos.saturating_sub(64) && !m.is_request() && m.id() == c.msg.id()).collect()).unwrap_or_default();
            let readable = !c.challenged && c.keys_held && (c.via == "message" || c.established_in_step);
            // how often did this very request reach the node under test (duplicates, handshake retries)?
            match &c.msg {
                RefMessage::Ping { .. } => {
                    rep.count("sys_pings_served");
                    if !readable {
                        continue;
                    }
                    let src = self.w.nodes[c.node].sim.addr();
                    let pongs: Vec<&RefMessage> = answers.iter().map(|a| &a.2).filter(|m| matches!(m, RefMessage::Pong { .. })).collect();
                    if pongs.is_empty() {
                        self.flag(rep, Focus::C14, "C14:ping-not-answered", format!("a readable PING from {src} got no PONG"), json!({"request": show(&c.msg), "at_ms": c.at.as_millis() as u64}));
                    }
                    for p in pongs {
                        if let RefMessage::Pong { ip, port, enr_seq, .. } = p {
                            if *ip != rlp_ref::ip_bytes(&src.ip()) || *port != src.port() {
                                self.flag(rep, Focus::C14, "C14:pong-wrong-address", format!("PONG reports {}:{port} for a PING that came from {src}", hx(ip)), json!({"request": show(&c.msg)}));
                            }
                            if *enr_seq != c.local_seq && *enr_seq != self.w.discv5.local_enr().seq() {
                                self.flag(rep, Focus::C14, "C14:pong-wrong-seq", format!("PONG carries enr-seq {enr_seq}, the local record had {}", c.local_seq), json!({"request": show(&c.msg)}));
                            }
                        }
                    }
                }
                RefMessage::FindNode { distances, .. } => {
                    rep.count("sys_findnodes_served");
                    if !readable {
                        continue;
                    }
                    let requester = self.w.id(c.node);
                    let want = |t: &Vec<(Id, Vec<u8>)>| -> HashSet<Vec<u8>> { t.iter().filter(|(id, _)| *id != requester && distances.contains(&log2(&vid, id))).map(|(_, r)| r.clone()).collect() };
                    let before = want(&c.table_before);
                    let after = want(&c.table_after);
                    let nodes: Vec<(&RefMessage, usize)> = answers.iter().filter(|a| matches!(a.2, RefMessage::Nodes { .. })).map(|a| (&a.2, a.3)).collect();
                    if nodes.is_empty() {
                        self.flag(rep, Focus::C14, "C14:findnode-not-answered", "a readable FINDNODE got no NODES answer".into(), json!({"request": show(&c.msg)}));
                        continue;
                    }
                    // a duplicated request is answered twice: judge per distinct `total` batch only
                    // when exactly one batch is present
                    let total0 = match nodes[0].0 {
                        RefMessage::Nodes { total, .. } => *total,
                        _ => 0,
                    };
                    if nodes.len() as u64 != total0 {
                        if nodes.len() as u64 % total0.max(1) == 0 {
                            rep.count("sys_findnode_duplicate_batches");
                            continue;
                        }
                        self.flag(rep, Focus::C14, "C14:total-mismatch", format!("{} NODES packets were sent, each announcing total={total0}", nodes.len()), json!({"request": show(&c.msg)}));
                        continue;
                    }
                    let mut got: Vec<Vec<u8>> = Vec::new();
                    for (m, len) in &nodes {
                        if let RefMessage::Nodes { total, records, .. } = m {
                            if *total != total0 {
                                self.flag(rep, Focus::C14, "C14:total-mismatch", "NODES packets of one answer announce different totals".into(), json!({"request": show(&c.msg)}));
                            }
                            if *len > 1280 {
                                self.flag(rep, Focus::C14, "C14:datagram-exceeds-1280", format!("a NODES datagram of {len} bytes"), json!({"request": show(&c.msg)}));
                            }
                            got.extend(records.iter().cloned());
                        }
                    }
                    let own_now = rlp_ref::encode_record(&self.w.discv5.local_enr());
                    let own_records: Vec<&Vec<u8>> = got.iter().filter(|r| rlp_ref::decode_record(r).map(|e| e.node_id().raw() == vid).unwrap_or(false)).collect();
                    if distances.contains(&0) != !own_records.is_empty() {
                        self.flag(rep, Focus::C14, "C14:own-record-iff-distance-0", format!("distance 0 requested: {}, own record present: {}", distances.contains(&0), !own_records.is_empty()), json!({"request": show(&c.msg)}));
                    }
                    let _ = own_now;
                    let others: Vec<Vec<u8>> = got.iter().filter(|r| rlp_ref::decode_record(r).map(|e| e.node_id().raw() != vid).unwrap_or(true)).cloned().collect();
                    let set: HashSet<Vec<u8>> = others.iter().cloned().collect();
                    if set.len() != others.len() {
                        self.flag(rep, Focus::C14, "C14:duplicate-record", "a record was served twice in one answer".into(), json!({"request": show(&c.msg)}));
                    }
                    if others.iter().any(|r| rlp_ref::decode_record(r).map(|e| e.node_id().raw() == requester).unwrap_or(false)) {
                        self.flag(rep, Focus::C14, "C14:requester-record-served", "the requester's own record was served to it".into(), json!({"request": show(&c.msg)}));
                    }
                    if others.len() > self.max_nodes_response {
                        self.flag(rep, Focus::C14, "C14:more-than-maximum", format!("{} records served, the configured maximum is {}", others.len(), self.max_nodes_response), json!({"request": show(&c.msg)}));
                    }
                    if before == after {
                        rep.count("sys_findnodes_judged_exactly");
                        // the cap is applied to the table scan before the requester is left out, so
                        // a capped answer may be one short when the requester is among the entries
                        let requester_counts = c.table_before.iter().chain(c.table_after.iter()).any(|(id, _)| *id == requester && distances.contains(&log2(&vid, id)));
                        let ok = if before.len() + (requester_counts as usize) <= self.max_nodes_response {
                            set == before
                        } else {
                            set.is_subset(&before) && (set.len() == self.max_nodes_response || (requester_counts && set.len() + 1 == self.max_nodes_response))
                        };
                        if !ok {
                            self.flag(rep, Focus::C14, "C14:records-differ-from-table", format!("{} records served for distances {distances:?}; the table held {} entries at those distances ({} served records are not among them)", set.len(), before.len(), set.difference(&before).count()), json!({"request": show(&c.msg)}));
                        }
                    } else {
                        let union: HashSet<Vec<u8>> = before.union(&after).cloned().collect();
                        if !set.is_subset(&union) {
                            self.flag(rep, Focus::C14, "C14:records-differ-from-table", "records served that were not table entries at the requested distances".into(), json!({"request": show(&c.msg)}));
                        }
                    }
                }
                _ => {}
            }
        }
        // ---- C02: everything delivered is what that peer sent ----
        for c in &self.talk {
            rep.count("sys_delivered_requests_checked");
            let Some(i) = self.w.node_by_id(&c.node_id) else {
                self.flag(rep, Focus::C02, "C02:delivered-request-from-unknown-node", "a TALK request was delivered as coming from a node id that does not exist".into(), json!({}));
                continue;
            };
            let sent = self.w.nodes[i].requests_sent.iter().any(|(_, m)| matches!(m, RefMessage::TalkReq { id, request, protocol } if *id == c.req_id && *request == c.body && protocol == b"sys"));
            if !sent {
                self.flag(rep, Focus::C02, "C02:delivered-request-not-sent-by-peer", format!("TALKREQ#{} ({} bytes) was delivered as coming from node {i}, which never sent that request", hx(&c.req_id), c.body.len()), json!({"node": i}));
            }
        }
        for a in &self.apis {
            let (Some((_, out)), Some(i)) = (&a.done, a.node) else { continue };
            match out {
                ApiOut::Talk(Ok(p)) => {
                    rep.count("sys_delivered_responses_checked");
                    if !self.w.nodes[i].replies_sent.iter().any(|(_, m)| matches!(m, RefMessage::TalkResp { response, .. } if response == p)) {
                        self.flag(rep, Focus::C02, "C02:delivered-response-not-sent-by-peer", format!("talk_req to node {i} returned {} bytes that node never sent", p.len()), json!({"node": i}));
                    }
                }
                ApiOut::Pong(Ok((seq, ip, port))) => {
                    rep.count("sys_delivered_responses_checked");
                    let ipb = rlp_ref::ip_bytes(ip);
                    if !self.w.nodes[i].replies_sent.iter().any(|(_, m)| matches!(m, RefMessage::Pong { enr_seq, ip, port: p, .. } if enr_seq == seq && *ip == ipb && p == port)) {
                        self.flag(rep, Focus::C02, "C02:delivered-response-not-sent-by-peer", format!("send_ping to node {i} returned a PONG (seq {seq}, {ip}:{port}) that node never sent"), json!({"node": i}));
                    }
                }
                ApiOut::Nodes(Ok(v)) => {
                    rep.count("sys_delivered_responses_checked");
                    let served: HashSet<Vec<u8>> = self.w.nodes[i].replies_sent.iter().flat_map(|(_, m)| match m {
                        RefMessage::Nodes { records, .. } => records.clone(),
                        _ => vec![],
                    }).collect();
                    for e in v {
                        if !served.contains(&rlp_ref::encode_record(e)) {
                            self.flag(rep, Focus::C02, "C02:delivered-response-not-sent-by-peer", format!("find_node_designated_peer to node {i} returned a record that node never sent"), json!({"node": i}));
                        }
                    }
                }
                _ => {}
            }
        }
        // ---- C20: every TALK request handed to the application ----
        let mut per_key: HashMap<(Id, Vec<u8>), Vec<&TalkCase>> = HashMap::new();
        for c in &self.talk {
            per_key.entry((c.node_id, c.req_id.clone())).or_default().push(c);
        }
        for ((nid, rid), cases) in &per_key {
            let Some(i) = self.w.node_by_id(nid) else { continue };
            let resps: Vec<&(usize, Duration, RefMessage, usize)> = sent_to.get(&i).map(|v| v.iter().filter(|(_, _, m, _)| matches!(m, RefMessage::TalkResp { .. }) && m.id() == &rid[..]).collect()).unwrap_or_default();
            rep.count_n("sys_talk_requests_delivered", cases.len() as u64);
            let acted = cases.iter().filter(|c| c.action.is_some()).count();
            if acted != cases.len() {
                continue; // still held by the application at the end
            }
            // A response can only be encrypted while the session of its request exists: if the
            // node under test dropped that session between delivery and the application's answer
            // (seen on the wire as a WHOAREYOU to that peer), the missing response is not judged.
            // ... or the peer itself lost its session meanwhile (a WHOAREYOU *from* it): the
            // session is then re-keyed or, after a second WHOAREYOU, dropped.
            let session_lost = cases.iter().any(|c| {
                self.w.trace.iter().any(|(t, e)| {
                    *t >= c.delivered
                        && *t <= c.acted + Duration::from_millis(2)
                        && (matches!(e, WEv::Sent { node: Some(n), kind: "whoareyou", .. } if *n == i) || matches!(e, WEv::Injected { node: Some(n), label, .. } if *n == i && label.starts_with("whoareyou")))
                })
            });
            if resps.len() < cases.len() && session_lost {
                rep.count("sys_talk_session_lost_before_answer");
                continue;
            }
            if resps.len() != cases.len() {
                self.flag(rep, Focus::C20, if resps.len() > cases.len() { "C20:answered-more-than-once" } else { "C20:not-answered" }, format!("{} TALKREQ#{} delivered to the application, {} TALKRESP on the wire", cases.len(), hx(rid), resps.len()), json!({"node": i}));
                continue;
            }
            let mut want: Vec<Vec<u8>> = cases.iter().map(|c| c.action.clone().unwrap().unwrap_or_default()).collect();
            let mut got: Vec<Vec<u8>> = resps.iter().map(|r| match &r.2 {
                RefMessage::TalkResp { response, .. } => response.clone(),
                _ => vec![],
            }).collect();
            want.sort();
            got.sort();
            if want != got {
                self.flag(rep, Focus::C20, "C20:wrong-payload", format!("TALKRESP#{} payloads differ from what the application returned", hx(rid)), json!({"node": i}));
            }
            // never before the application acted
            for (c, r) in cases.iter().zip(resps.iter()) {
                if r.1 < c.delivered {
                    self.flag(rep, Focus::C20, "C20:answered-before-delivery", "a TALKRESP left before the request reached the application".into(), json!({"node": i}));
                }
            }
        }
        // TALKRESP without any delivered request
        for (i, v) in &sent_to {
            for (_, _, m, _) in v {
                if let RefMessage::TalkResp { id, .. } = m {
                    let nid = self.w.id(*i);
                    if !per_key.contains_key(&(nid, id.clone())) {
                        self.flag(rep, Focus::C20, "C20:response-without-request", format!("TALKRESP#{} was sent although no such request was handed to the application", hx(id)), json!({"node": i}));
                    }
                }
            }
        }
        // ---- C19: nonces of everything sent ----
        let mut nonces: HashMap<[u8; 12], &Vec<u8>> = HashMap::new();
        let mut id_nonces: HashSet<[u8; 16]> = HashSet::new();
        let mut whoareyous: HashSet<&Vec<u8>> = HashSet::new();
        for (_, to, b) in &self.w.all_sent {
            // the destination id is not known for unclaimed datagrams; use the owning node's id
            let Some(i) = self.w.nodes.iter().position(|n| n.sim.addr() == *to && codec_ref::decode(&n.sim.ident.id, b).is_ok()) else { continue };
            let Ok(dec) = codec_ref::decode(&self.w.nodes[i].sim.ident.id, b) else { continue };
            match dec.kind {
                RefKind::WhoAreYou { id_nonce, .. } => {
                    rep.count("sys_whoareyou_sent");
                    if whoareyous.insert(b) && !id_nonces.insert(id_nonce) {
                        self.flag(rep, Focus::C19, "C19:id-nonce-repeated", "two different WHOAREYOU packets carry the same id-nonce".into(), json!({}));
                    }
                }
                _ => {
                    rep.count("sys_encrypted_datagrams");
                    if let Some(prev) = nonces.insert(dec.nonce, b) {
                        if prev != b {
                            self.flag(rep, Focus::C19, "C19:nonce-reused", format!("two different datagrams carry message nonce {}", hx(&dec.nonce)), json!({}));
                        }
                    }
                }
            }
        }
        // ---- C13 at the end: nothing outstanding, nothing exempt ----
        if self.open_calls() == 0 && self.w.idle() {
            if let Some(ex) = self.w.wire.expected_responses() {
                let now = self.w.now();
                let horizon = self.w.request_timeout + Duration::from_millis(50);
                let _ = now;
                let left: Vec<String> = ex.iter().filter(|(a, n)| **n > 0 && !self.recent_exchange(a, horizon)).map(|(a, n)| format!("{a}={n}")).collect();
                rep.count("sys_final_exemption_checks");
                if !left.is_empty() {
                    self.flag(rep, Focus::C13, "C13:exemption-leak-at-quiescence", format!("every call returned and the network is silent, yet these addresses are still exempt: {left:?}"), json!({"left": left}));
                }
            }
        }
        rep.count_n("sys_exempt_observations", self.exempt_seen);
        // ---- API results against what the nodes really did ----
        for a in &self.apis {
            if a.abandoned {
                rep.count("sys_api_calls_abandoned_by_the_caller");
                continue;
            }
            let Some((_, out)) = &a.done else {
                rep.count("sys_api_calls_open_at_end");
                self.flag(rep, Focus::C04, "C04:api-call-without-outcome", format!("{} (started at {:?}) has neither returned a result nor an error long after every timeout", a.what, a.started), json!({"call": a.what}));
                continue;
            };
            rep.count("sys_api_calls_completed");
            match (out, a.node) {
                (ApiOut::Talk(Ok(p)), Some(i)) => {
                    let said = self.w.nodes[i].replies_sent.iter().any(|(_, m)| matches!(m, RefMessage::TalkResp { response, .. } if response == p));
                    if !said {
                        self.flag(rep, Focus::C01, "C01:response-attributed-without-proof", format!("talk_req to node {i} returned a payload that node never sent"), json!({"node": i}));
                    }
                }
                (ApiOut::Pong(Ok(_)), Some(i)) => {
                    if !self.w.nodes[i].replies_sent.iter().any(|(_, m)| matches!(m, RefMessage::Pong { .. })) {
                        self.flag(rep, Focus::C01, "C01:response-attributed-without-proof", format!("send_ping to node {i} succeeded although that node never sent a PONG"), json!({"node": i}));
                    }
                }
                _ => {}
            }
        }
    }
}

/* ---------------------------------------------------------------------------------------- */
/* network construction                                                                      */

pub struct NetSpec {
    pub n: usize,
    pub silent: usize,
    pub mismatched: usize,
    pub no_addr: usize,
    pub v6: usize,
}

/// Adds nodes: honest ones first, then silent ones, nodes whose record advertises an address
/// they do not send from, nodes without an address in their record, IPv6 nodes. Everyone gets
/// random neighbours among all nodes.
pub fn build_net(s: &mut Sys, spec: &NetSpec) -> Vec<usize> {
    let mut all = Vec::new();
    let mut k = 0u16;
    let mut next_addr = |k: &mut u16| {
        *k += 1;
        v4(10, 1, (*k / 200) as u8, 1 + (*k % 200) as u8, 9000 + *k)
    };
    for _ in 0..spec.n {
        let a = next_addr(&mut k);
        // sequence numbers are the peer's choice: mostly small, sometimes at the far end of the range
        let seq = match s.w.rng.below(10) {
            0 => u64::MAX - 100_000 - s.w.rng.below(1000),
            1 => (1u64 << 63) - 2 + s.w.rng.below(4),
            _ => 1 + s.w.rng.below(4),
        };
        all.push(s.w.add_node(a, EnrAddr::Socket(a), seq));
    }
    for _ in 0..spec.silent {
        let a = next_addr(&mut k);
        let i = s.w.add_node(a, EnrAddr::Socket(a), 1);
        s.w.nodes[i].b.silent = true;
        all.push(i);
    }
    for _ in 0..spec.mismatched {
        let a = next_addr(&mut k);
        let other = v4(10, 9, 9, 1 + (k % 200) as u8, 9999);
        all.push(s.w.add_node(a, EnrAddr::Socket(other), 1));
    }
    for _ in 0..spec.no_addr {
        let a = next_addr(&mut k);
        all.push(s.w.add_node(a, EnrAddr::None, 1));
    }
    for j in 0..spec.v6 {
        let a = v6(0x100 + j as u16, 9100 + j as u16);
        all.push(s.w.add_node(a, EnrAddr::Socket(a), 1));
    }
    let total = s.w.nodes.len();
    for i in 0..total {
        let deg = 2 + s.w.rng.usize(total.min(12));
        let mut nb: Vec<usize> = (0..total).filter(|j| *j != i).collect();
        s.w.rng.shuffle(&mut nb);
        nb.truncate(deg);
        s.w.nodes[i].neighbours = nb;
    }
    all
}

/* ---------------------------------------------------------------------------------------- */
/* the mixed workload: C12, C13, C14, C19, C20                                               */

pub fn mixed(seed: u64, focus: Focus, rep: &mut Report) {
    let rt = runtime(seed);
    rt.block_on(async {
        let mut rng = Rng::new(seed ^ 0x5157);
        let stack = if rng.chance(1, 4) { Stack3::Dual } else { Stack3::V4 };
        let max_nodes = *rng.pick(&[16usize, 16, 4, 1]);
        // with the packet filter on, an unanswered request may simply have been rate limited
        let filter = focus == Focus::C13 || (focus != Focus::C14 && rng.chance(1, 3));
        let ping_interval = *rng.pick(&[8u64, 30, 300]);
        let cfg = WorldCfg {
            stack,
            victim_enr_has_addr: rng.chance(3, 4),
            request_timeout: Duration::from_millis(*rng.pick(&[200u64, 1000])),
            request_retries: rng.below(3) as u8,
            tweak: Box::new(move |b| {
                b.max_nodes_response(max_nodes);
                b.ping_interval(Duration::from_secs(ping_interval));
                if filter {
                    b.enable_packet_filter();
                }
            }),
        };
        let mut s = Sys::start(seed, focus, cfg, max_nodes).await;
        s.talk_policy = if focus == Focus::C20 { 2 } else { *rng.pick(&[0u8, 2]) };
        let spec = NetSpec { n: 5 + rng.usize(14), silent: rng.usize(3), mismatched: rng.usize(3), no_addr: rng.usize(2), v6: if stack == Stack3::Dual { 1 + rng.usize(3) } else { 0 } };
        let all = build_net(&mut s, &spec);
        let honest: Vec<usize> = all.iter().copied().filter(|i| !s.w.nodes[*i].b.silent).collect();
        let lossy = rng.chance(1, 2) || focus == Focus::C02 || focus == Focus::C03;
        if lossy {
            let hostile = focus == Focus::C02 || focus == Focus::C03;
            s.w.faults = Faults3 {
                drop: 30 + rng.below(120),
                dup: if focus == Focus::C14 { 0 } else { rng.below(80) },
                delay: if focus == Focus::C14 { 0 } else { rng.below(150) },
                corrupt: if hostile { 20 + rng.below(150) } else { 0 },
                replay: if hostile { 20 + rng.below(150) } else { 0 },
            };
        }
        // bootstrap
        let boot = 1 + rng.usize(4);
        for _ in 0..boot {
            let i = *rng.pick(&all);
            s.add_enr(i);
        }
        let nops = 10 + rng.usize(30);
        for _ in 0..nops {
            match rng.below(19) {
                18 => {
                    // the caller of a pending call gives up on it
                    if s.api_abandon_one(&mut rng) {
                        rep.count("sys_api_calls_abandoned");
                    }
                }
                16 | 17 => {
                    // simultaneous open: the node under test and a peer dial each other at the same
                    // moment; sometimes the peer has just signed a new record, which may name an
                    // address it does not send from
                    let i = *rng.pick(&honest);
                    let api_first = rng.bool();
                    let call = rng.below(3);
                    let body = rng.bytes(8);
                    let dial = |s: &mut Sys| match call {
                        0 => s.api_ping(i),
                        1 => s.api_find_designated(i, vec![0, 256]),
                        _ => s.api_talk(i, body.clone()),
                    };
                    if api_first {
                        dial(&mut s);
                    }
                    let declared = s.w.nodes[i].sim.ident.enr.udp4_socket().map(SocketAddr::V4).or(s.w.nodes[i].sim.ident.enr.udp6_socket().map(SocketAddr::V6));
                    if let (Some(d), true) = (declared, rng.chance(1, 2)) {
                        let old = s.w.nodes[i].sim.ident.record_bytes();
                        let seq = s.w.nodes[i].sim.ident.enr.seq();
                        let names = if rng.bool() { d } else { v4(10, 9, 8, 1 + rng.below(200) as u8, 9500 + rng.below(100) as u16) };
                        s.w.nodes[i].sim.ident.rebuild_enr(seq.saturating_add(1 + rng.below(3)).min(u64::MAX - 10), EnrAddr::Socket(names));
                        s.w.nodes[i].old_records.push(old);
                    }
                    let seq = s.w.nodes[i].sim.ident.enr.seq();
                    s.w.node_request(i, RefMessage::Ping { id: vec![], enr_seq: seq });
                    if !api_first {
                        dial(&mut s);
                    }
                    rep.count("sys_simultaneous_dials");
                }
                0 | 1 => {
                    let t: Id = if rng.bool() { rng.array() } else { s.w.id(*rng.pick(&all)) };
                    s.api_find_node(t);
                }
                2 => {
                    let i = *rng.pick(&all);
                    let n = 1 + rng.usize(40);
                    let p = rng.bytes(n);
                    s.api_talk(i, p);
                }
                3 => {
                    let i = *rng.pick(&all);
                    s.api_ping(i);
                }
                4 => {
                    let i = *rng.pick(&all);
                    let d = vec![0, 256 - rng.below(4), 256 - rng.below(3)];
                    s.api_find_designated(i, d);
                }
                5 | 6 | 7 => {
                    let i = *rng.pick(&honest);
                    let seq = s.w.nodes[i].sim.ident.enr.seq();
                    s.w.node_request(i, RefMessage::Ping { id: vec![], enr_seq: seq });
                }
                8 | 9 | 10 => {
                    let i = *rng.pick(&honest);
                    let mut d: Vec<u64> = Vec::new();
                    for _ in 0..(1 + rng.usize(5)) {
                        d.push(match rng.below(8) {
                            0 => 0,
                            1 => 256,
                            2 => 255,
                            3 => 254,
                            4 => 253,
                            5 => 256 - rng.below(12),
                            6 => 1 + rng.below(256),
                            _ => 256,
                        });
                    }
                    s.w.node_request(i, RefMessage::FindNode { id: vec![], distances: d });
                }
                11 | 12 => {
                    let i = *rng.pick(&honest);
                    let n = rng.usize(60);
                    let body = rng.bytes(n);
                    s.w.node_request(i, RefMessage::TalkReq { id: vec![], protocol: b"sys".to_vec(), request: body });
                }
                13 => {
                    let i = *rng.pick(&honest);
                    s.w.node_lose_session(i);
                }
                14 => {
                    // the node publishes a new record: sometimes honest (higher seq), sometimes it
                    // keeps answering with a stale one
                    let i = *rng.pick(&honest);
                    let old = s.w.nodes[i].sim.ident.record_bytes();
                    let seq = s.w.nodes[i].sim.ident.enr.seq();
                    let addr = s.w.nodes[i].sim.addr();
                    let declared = s.w.nodes[i].sim.ident.enr.udp4_socket().map(SocketAddr::V4).or(s.w.nodes[i].sim.ident.enr.udp6_socket().map(SocketAddr::V6));
                    if let Some(d) = declared {
                        let _ = addr;
                        // a small step, or a jump over more than half of the 64-bit range
                        let step = if seq < (1 << 62) && rng.chance(1, 4) { (1u64 << 63) + rng.below(1000) } else { 1 + rng.below(3) };
                        s.w.nodes[i].sim.ident.rebuild_enr(seq.saturating_add(step).min(u64::MAX - 10), EnrAddr::Socket(d));
                        s.w.nodes[i].old_records.push(old.clone());
                        if rng.chance(1, 3) {
                            s.w.nodes[i].b.own_record_override = Some(old);
                        }
                    }
                }
                _ => {
                    let d = Duration::from_millis(*rng.pick(&[5u64, 50, 400, 1500, 6000]));
                    s.advance(d, rep).await;
                }
            }
            let d = Duration::from_millis(*rng.pick(&[1u64, 3, 10, 40, 200]));
            s.advance(d, rep).await;
        }
        s.w.faults = Faults3::default();
        s.settle_all(Duration::from_secs(150), rep).await;
        s.finish(rep);
        // postlude: the user shuts the node down while calls are in flight: each of them must
        // come back (with an error), none may hang for ever
        if rng.chance(1, 4) {
            let n0 = s.apis.len();
            let t: Id = rng.array();
            s.api_find_node(t);
            let i = *rng.pick(&all);
            s.api_ping(i);
            let j = *rng.pick(&all);
            s.api_talk(j, b"bye".to_vec());
            if rng.bool() {
                s.tick(rep).await;
            }
            if let Some(d) = std::sync::Arc::get_mut(&mut s.w.discv5) {
                s.closed = true;
                d.shutdown();
                s.advance(s.w.request_timeout * 6 + Duration::from_secs(5), rep).await;
                s.reap().await;
                rep.count("sys_shutdowns_with_calls_in_flight");
                for a in &s.apis[n0..] {
                    if a.done.is_none() {
                        let what = a.what.clone();
                        s.flag(rep, Focus::C04, "C04:api-call-hangs-after-shutdown", format!("{what} was in flight when the node was shut down and never returned"), json!({"call": what}));
                        break;
                    }
                }
            }
        }
        if std::env::var("DV5_TRACE").is_ok() {
            eprintln!("{}", serde_json::to_string_pretty(&s.w.dump(100000)).unwrap());
        }
        rep.evaluations += 1;
        rep.count("sys_mixed_scenarios");
        rep.count_n("sys_steps", s.steps);
        let est = s.established.len();
        rep.count_n("sys_sessions_established", est as u64);
        let tsize = s.table_prev.len();
        rep.fingerprint(&("sys-mixed", focus, stack, max_nodes, lossy, filter, est.min(6), tsize.min(8), s.talk.len().min(4)));
        if rep.want_sample() && est > 2 {
            rep.sample(json!({"scenario_seed": seed.to_string(), "kind": "system-mixed", "stack": format!("{stack:?}"), "nodes": s.w.nodes.len(), "sessions_established": est, "table_entries": tsize, "datagrams_sent": s.w.all_sent.len(), "api_calls": s.apis.len(), "talk_requests_delivered": s.talk.len(), "trace_tail": s.w.dump(12)}));
        }
    });
}

/* ---------------------------------------------------------------------------------------- */
/* C01 on the full stack                                                                     */

#[derive(Clone, Copy, Debug, PartialEq, Eq, Hash)]
enum Know {
    Unknown,
    InTable,
    InTableConnected,
    InLookup,
}

#[derive(Clone, Copy, Debug, PartialEq, Eq, Hash)]
enum Rec {
    None,
    OwnLower,
    OwnEqual,
    OwnHigher,
    GenuineX,
    OwnAtXAddr,
}

pub fn attack(seed: u64, rep: &mut Report) {
    let rt = runtime(seed);
    rt.block_on(async {
        let mut rng = Rng::new(seed ^ 0xA77);
        let cfg = WorldCfg { request_timeout: Duration::from_millis(500), request_retries: 1, ..Default::default() };
        let mut s = Sys::start(seed, Focus::C01, cfg, 16).await;
        s.talk_policy = 0;
        let spec = NetSpec { n: 3 + rng.usize(5), silent: 0, mismatched: 0, no_addr: 0, v6: 0 };
        let all = build_net(&mut s, &spec);
        // X: an honest identity with its own address
        let x_addr = v4(10, 77, 0, 7, 9777);
        let x_seq = 2 + rng.below(5);
        let x = s.w.add_node(x_addr, EnrAddr::Socket(x_addr), x_seq);
        let x_id = s.w.id(x);
        let x_enr = s.w.enr(x);
        let know = *rng.pick(&[Know::Unknown, Know::InTable, Know::InTableConnected, Know::InLookup]);
        for i in &all {
            s.add_enr(*i);
        }
        match know {
            Know::Unknown => {
                s.w.nodes[x].b.silent = true;
            }
            Know::InTable => {
                s.add_enr(x);
                s.w.nodes[x].b.silent = true;
            }
            Know::InTableConnected => {
                let seq = s.w.nodes[x].sim.ident.enr.seq();
                s.w.node_request(x, RefMessage::Ping { id: vec![], enr_seq: seq });
                s.advance(Duration::from_millis(60), rep).await;
                s.w.nodes[x].b.silent = true;
            }
            Know::InLookup => {
                s.w.nodes[x].b.silent = true;
                for i in &all {
                    s.w.nodes[*i].neighbours.push(x);
                }
                s.api_find_node(x_id);
            }
        }
        // let whatever is in flight finish reaching X's genuine side
        s.advance(Duration::from_millis(5), rep).await;
        let t0 = s.w.now();
        let ev0 = s.w.events.len();
        let entry0: Option<(Vec<u8>, bool)> = s.w.table().into_iter().find(|e| e.0 == x_id).map(|e| (rlp_ref::encode_record(&e.1), e.2));
        let genuine_handshakes0 = s.w.nodes[x].handshakes_completed;
        // the attacker
        let m_sk = signing_key(&mut rng);
        let m_addr = v4(10, 66, 6, 6, 6666);
        let vid = s.w.victim_id;
        let vpub = s.w.victim_pub;
        let mut attacker_keys: Vec<KeyGen> = Vec::new();
        let mut strategies: Vec<String> = Vec::new();
        let rounds = 1 + rng.usize(4);
        for round in 0..rounds {
            if rng.chance(1, 4) {
                // a node the user knows only by key and socket (a multiaddr) is asked for its
                // record; it completes the handshake as itself and hands out X's genuine record
                let l_addr = v4(10, 66, 7, 1 + round as u8, 6700 + round as u16);
                let l = s.w.add_node(l_addr, EnrAddr::Socket(l_addr), 1);
                let own = s.w.nodes[l].sim.ident.record_bytes();
                let xr = rlp_ref::encode_record(&x_enr);
                let (list, shape) = match rng.below(4) {
                    0 => (vec![xr], "X's record"),
                    1 => (vec![own, xr], "its own record, then X's"),
                    2 => (vec![xr, own], "X's record, then its own"),
                    _ => (vec![xr.clone(), xr], "X's record twice"),
                };
                s.w.nodes[l].b.own_records_list = Some(list);
                s.w.nodes[l].b.records_per_packet = *rng.pick(&[1usize, 3]);
                strategies.push(format!("a node dialled by key and socket answers the record request with {shape}"));
                s.api_request_enr(l);
                s.advance(Duration::from_millis(100 + rng.below(1500)), rep).await;
                rep.count("sys_attack_liars_dialled_by_key");
                continue;
            }
            let src = if rng.chance(1, 3) { x_addr } else { m_addr };
            let rec = *rng.pick(&[Rec::None, Rec::OwnLower, Rec::OwnEqual, Rec::OwnHigher, Rec::OwnHigher, Rec::GenuineX, Rec::OwnAtXAddr]);
            let passive = rng.chance(1, 4);
            strategies.push(format!("{rec:?} from {} {}", if src == x_addr { "X's address" } else { "own address" }, if passive { "(answering the node's own packet with WHOAREYOU first)" } else { "" }));
            if passive {
                // make the node under test talk to X's address, then challenge it from there
                s.api_talk(x, b"secret".to_vec());
                s.tick(rep).await;
                let last = s.w.all_sent.iter().rev().find(|(_, to, _)| *to == x_addr).cloned();
                if let Some((_, _, bytes)) = last {
                    if let Ok(dec) = codec_ref::decode(&x_id, &bytes) {
                        if matches!(dec.kind, RefKind::Message { .. }) {
                            let claimed_seq = *rng.pick(&[0u64, 1, 99]);
                            let (w, _cd) = crate::peer::peersim::whoareyou_packet(&mut rng, &vid, dec.nonce, claimed_seq);
                            s.w.inject_now(x_addr, w, "attacker WHOAREYOU from X's address");
                            s.tick(rep).await;
                            // the node now sent a handshake for X to X's address; the attacker
                            // cannot read it. It answers with noise.
                            let (noise, _) = random_packet(&mut rng, &x_id, &vid);
                            s.w.inject_now(x_addr, noise, "attacker noise from X's address");
                            s.tick(rep).await;
                        }
                    }
                }
            }
            // X's own earlier datagrams (its genuine handshake included), injected again
            if rng.chance(1, 3) {
                let old: Vec<(SocketAddr, &'static str, Vec<u8>)> = s.w.all_injected.iter().filter(|(t, from, _, _)| *t < t0 && *from == x_addr).map(|(_, f, v, b)| (*f, *v, b.clone())).collect();
                if !old.is_empty() {
                    let (_, via, bytes) = old[rng.usize(old.len())].clone();
                    strategies.push(format!("replay of X's genuine {via} packet from {}", if src == x_addr { "X's address" } else { "own address" }));
                    s.w.inject_now(src, bytes, "attacker replays a genuine datagram of X");
                    s.tick(rep).await;
                    rep.count("sys_attack_replays_of_genuine_datagrams");
                }
            }
            // active forgery: random packet claiming X, then a handshake answering the challenge
            let (rp, nonce) = random_packet(&mut rng, &x_id, &vid);
            s.w.inject_now(src, rp, "attacker random packet claiming X");
            s.tick(rep).await;
            let wru = s.w.all_sent.iter().rev().take(6).find_map(|(_, to, b)| {
                if *to != src {
                    return None;
                }
                let d = codec_ref::decode(&x_id, b).ok()?;
                (matches!(d.kind, RefKind::WhoAreYou { .. }) && d.nonce == nonce).then_some(d)
            });
            let Some(wru) = wru else {
                rep.count("sys_attack_no_challenge");
                continue;
            };
            rep.count("sys_attack_challenges_obtained");
            let known_seq = match wru.kind {
                RefKind::WhoAreYou { enr_seq, .. } => enr_seq,
                _ => 0,
            };
            let m_enr_addr = if rec == Rec::OwnAtXAddr { x_addr } else { m_addr };
            let record = match rec {
                Rec::None => None,
                Rec::OwnLower => Some(rlp_ref::encode_record(&build_enr(&m_sk, known_seq.saturating_sub(1).max(1), EnrAddr::Socket(m_enr_addr), None))),
                Rec::OwnEqual => Some(rlp_ref::encode_record(&build_enr(&m_sk, known_seq.max(1), EnrAddr::Socket(m_enr_addr), None))),
                Rec::OwnHigher | Rec::OwnAtXAddr => Some(rlp_ref::encode_record(&build_enr(&m_sk, known_seq + 1 + rng.below(1000), EnrAddr::Socket(m_enr_addr), None))),
                Rec::GenuineX => Some(rlp_ref::encode_record(&x_enr)),
            };
            let inner = RefMessage::TalkReq { id: vec![0xAA, 0x01], protocol: b"sys".to_vec(), request: b"from the attacker".to_vec() };
            let pt = inner.encode();
            // mostly the strongest forgery (everything correct except the key); sometimes weaker ones
            let signer = match rng.below(6) {
                0 => Signer::Key(signing_key(&mut rng)),
                1 => Signer::Raw(rng.bytes(64)),
                _ => Signer::Key(m_sk.clone()),
            };
            let signed = *rng.pick(&[SignedData::Correct, SignedData::Correct, SignedData::Correct, SignedData::OtherChallenge, SignedData::WithoutEphKey, SignedData::OtherDestination]);
            let eph = match rng.below(8) {
                0 => EphKey::FreshUncompressed,
                1 => EphKey::Raw(rng.bytes(33)),
                _ => EphKey::Fresh,
            };
            let spec = HandshakeSpec { claimed_id: x_id, signer, signed, eph, record, dst: vid, dst_pub: &vpub, challenge_data: &wru.aad, plaintext: &pt };
            let out = handshake_packet(&mut rng, &spec);
            if let Some(k) = out.keys.clone() {
                attacker_keys.push(k);
            }
            s.w.inject_now(src, out.datagram, "attacker handshake claiming X");
            s.tick(rep).await;
            rep.count("sys_attack_handshakes_injected");
            // follow-up under the keys the attacker would share if it had been accepted
            if let Some(k) = attacker_keys.last() {
                let m = RefMessage::Ping { id: vec![0xAA, 0x02], enr_seq: 1 };
                let (b, _) = crate::peer::peersim::message_packet(&mut rng, &x_id, &vid, &k.send, &m.encode());
                s.w.inject_now(src, b, "attacker message under its own keys");
                s.tick(rep).await;
            }
            s.advance(Duration::from_millis(20 + rng.below(600)), rep).await;
        }
        s.settle_all(Duration::from_secs(8), rep).await;
        // ---- oracle: X's genuine side was silent since t0 ----
        let w = json!({"knowledge": format!("{know:?}"), "attacks": strategies});
        assert_eq!(s.w.nodes[x].handshakes_completed, genuine_handshakes0);
        // Initiator role: this implementation announces an outgoing session (and marks the node
        // connected) as soon as it has *sent* its handshake packet to the address it dialled; the
        // proof that the other side holds X's key only arrives with the first readable answer. A
        // WHOAREYOU from X's address therefore yields Established(X, X's address) without any
        // signature from the other side. The statement speaks about the recipient role ("answered
        // this node's own WHOAREYOU"); these announcements at the dialled address are not judged.
        let dialled_handshake = s.w.trace.iter().any(|(t, e)| *t >= t0 && matches!(e, WEv::Sent { to, kind: "handshake", .. } if *to == x_addr));
        if dialled_handshake {
            rep.count("sys_attack_initiator_handshakes_to_x_address");
        }
        for (t, e) in s.w.events[ev0..].iter() {
            if *t < t0 {
                continue;
            }
            match e {
                EvSum::Established(_, _, addr) if dialled_handshake && *addr == x_addr => {}
                EvSum::Established(id, seq, addr) if *id == x_id => {
                    s.flag(rep, Focus::C01, "C01:established-for-X-without-proof", format!("SessionEstablished for X (record seq {seq}) at {addr} although X's key holder sent nothing"), w.clone());
                }
                EvSum::Unverifiable(id, addr) if *id == x_id => {
                    s.flag(rep, Focus::C01, "C01:unverifiableenr-for-X-without-proof", format!("UnverifiableEnr for X at {addr} although X's key holder sent nothing"), w.clone());
                }
                EvSum::Talk { from, body, .. } if *from == x_id => {
                    s.flag(rep, Focus::C01, "C01:request-for-X-without-proof", format!("a TALK request ({}) was attributed to X although X's key holder sent nothing", String::from_utf8_lossy(body)), w.clone());
                }
                _ => {}
            }
        }
        let entry1: Option<(Vec<u8>, bool)> = s.w.table().into_iter().find(|e| e.0 == x_id).map(|e| (rlp_ref::encode_record(&e.1), e.2));
        match (&entry0, &entry1) {
            (None, Some(_)) if dialled_handshake => {}
            (None, Some(_)) => s.flag(rep, Focus::C01, "C01:table-entry-for-X-without-proof", "X entered the routing table although X's key holder sent nothing".into(), w.clone()),
            (Some((r0, c0)), Some((r1, c1))) => {
                if r0 != r1 {
                    s.flag(rep, Focus::C01, "C01:table-entry-for-X-without-proof", "X's stored record changed although X's key holder sent nothing".into(), w.clone());
                }
                if !*c0 && *c1 && !dialled_handshake {
                    s.flag(rep, Focus::C01, "C01:table-entry-for-X-without-proof", "X's entry became connected although X's key holder sent nothing".into(), w.clone());
                }
            }
            (Some(_), None) => s.flag(rep, Focus::C01, "C01:table-entry-for-X-without-proof", "X was removed from the routing table although X's key holder sent nothing and the user removed nothing".into(), w.clone()),
            _ => {}
        }
        // traffic the attacker could read: anything sent after t0 that opens under keys the
        // attacker computed
        for (t, to, b) in &s.w.all_sent {
            if *t < t0 {
                continue;
            }
            let Ok(dec) = codec_ref::decode(&x_id, b) else { continue };
            if !matches!(dec.kind, RefKind::Message { .. }) {
                continue;
            }
            for k in &attacker_keys {
                if crypto_ref::gcm_decrypt(&k.recv, &dec.nonce, &dec.message, &dec.aad).is_some() {
                    s.flag(rep, Focus::C01, "C01:traffic-for-X-readable-by-attacker", format!("a message for X sent to {to} is encrypted under keys the attacker computed"), w.clone());
                }
            }
        }
        // calls addressed to X cannot have succeeded
        for a in &s.apis {
            if a.node == Some(x) {
                if let Some((_, ApiOut::Talk(Ok(_)) | ApiOut::Pong(Ok(_)))) = &a.done {
                    s.flag(rep, Focus::C01, "C01:response-attributed-without-proof", "a call addressed to X returned a response although X's key holder sent nothing".into(), w.clone());
                }
            }
        }
        // positive control: the genuine X can still authenticate afterwards
        s.w.nodes[x].b.silent = false;
        let before = s.w.events.len();
        let seq = s.w.nodes[x].sim.ident.enr.seq();
        s.w.node_lose_session(x);
        s.w.node_request(x, RefMessage::Ping { id: vec![], enr_seq: seq });
        s.advance(Duration::from_millis(80), rep).await;
        let ok = s.w.events[before..].iter().any(|(_, e)| matches!(e, EvSum::Established(id, _, _) if *id == x_id)) || !s.w.nodes[x].responses_got.is_empty();
        if ok {
            rep.count("sys_attack_genuine_x_still_accepted");
        } else {
            rep.count("sys_attack_genuine_x_not_accepted_afterwards");
        }
        s.finish(rep);
        if std::env::var("DV5_TRACE").is_ok() {
            eprintln!("{}", serde_json::to_string_pretty(&s.w.dump(100000)).unwrap());
        }
        rep.evaluations += 1;
        rep.count("sys_attack_scenarios");
        rep.fingerprint(&("sys-attack", know, strategies.len(), entry0.is_some(), entry0.as_ref().map(|e| e.1)));
        if rep.want_sample() && rng.chance(1, 20) {
            rep.sample(json!({"scenario_seed": seed.to_string(), "kind": "system-attack", "knowledge": format!("{know:?}"), "attacks": strategies, "x_in_table_before": entry0.is_some(), "trace_tail": s.w.dump(14)}));
        }
    });
}

/* ---------------------------------------------------------------------------------------- */
/* lookups on the full stack: C09 (termination, in-flight bound, one request per peer) and   */
/* C10 (result sound, ordered, bounded, complete)                                            */

pub fn lookup(seed: u64, focus: Focus, rep: &mut Report) {
    let rt = runtime(seed);
    rt.block_on(async {
        let mut rng = Rng::new(seed ^ 0x100C);
        let mut max_nodes = *rng.pick(&[16usize, 16, 64, 4]);
        let parallelism = *rng.pick(&[3usize, 3, 1, 5]);
        // "never": the largest durations the configuration type can express. For the oracle's
        // arithmetic such a lookup simply has no cut-off within the run (ten minutes stand in).
        let unbounded = rng.chance(1, 10);
        let configured_query_timeout = if unbounded { *rng.pick(&[Duration::MAX, Duration::from_secs(u64::MAX), Duration::from_secs(u64::MAX / 2 + 1)]) } else { Duration::from_secs(*rng.pick(&[4u64, 10, 60])) };
        let query_timeout = if unbounded { Duration::from_secs(600) } else { configured_query_timeout };
        let peer_timeout = Duration::from_millis(*rng.pick(&[300u64, 2000]));
        let request_timeout = Duration::from_millis(*rng.pick(&[200u64, 1000]));
        let retries = rng.below(2) as u8;
        // C11: answers to this node's own requests are solicited traffic whatever their number of
        // packets; with the packet filter on and a quota far below one answer, a responder that
        // only ever answers must still never be refused, let alone banned
        let tight_filter = focus == Focus::C11 && rng.bool();
        if tight_filter {
            // no answer may be longer than what this node collects, or its tail would be unsolicited
            max_nodes = max_nodes.max(16);
        }
        let cfg = WorldCfg {
            stack: Stack3::V4,
            victim_enr_has_addr: true,
            request_timeout,
            request_retries: retries,
            tweak: Box::new(move |b| {
                if tight_filter {
                    b.enable_packet_filter();
                    let hour = Duration::from_secs(3600);
                    b.filter_rate_limiter(Some(discv5::RateLimiterBuilder::new().total_n_every(1000, hour).ip_n_every(2, hour).node_n_every(2, hour).build().expect("quota")));
                }
                b.max_nodes_response(max_nodes);
                b.query_parallelism(parallelism);
                b.query_timeout(configured_query_timeout);
                b.query_peer_timeout(peer_timeout);
                b.ping_interval(Duration::from_secs(3000));
                b.disable_enr_update();
            }),
        };
        let mut s = Sys::start(seed, focus, cfg, max_nodes).await;
        s.talk_policy = 0;
        let big = rng.chance(1, 3);
        let spec = NetSpec { n: if big { 20 + rng.usize(25) } else { 4 + rng.usize(14) }, silent: rng.usize(5), mismatched: 0, no_addr: 0, v6: 0 };
        let all = build_net(&mut s, &spec);
        for i in &all {
            if !s.w.nodes[*i].b.silent {
                match rng.below(10) {
                    0 => s.w.nodes[*i].b.respond = false,
                    1 => s.w.nodes[*i].b.lose_replies = 500,
                    2 if !tight_filter => s.w.nodes[*i].b.records_per_packet = 1,
                    _ => {}
                }
            }
        }
        if rng.chance(1, 2) {
            s.w.faults = Faults3 { drop: rng.below(100), dup: rng.below(60), delay: rng.below(200), ..Default::default() };
            if tight_filter {
                // a duplicate or a late packet of an answer is unsolicited traffic: loss only
                s.w.faults.dup = 0;
                s.w.faults.delay = 0;
            }
        }
        // C11: a few responders slip a record at an unrequested distance into their answers: the
        // record of a node that exists nowhere else, so that any trace of it is their doing
        let mut liars: Vec<(usize, Id)> = Vec::new();
        if focus == Focus::C11 {
            let nl = 1 + rng.usize(3);
            let candidates: Vec<usize> = all.iter().copied().filter(|i| !s.w.nodes[*i].b.silent && s.w.nodes[*i].b.respond).take(nl).collect();
            for i in candidates.iter() {
                let me = s.w.id(*i);
                for _ in 0..400 {
                    let sk = signing_key(&mut rng);
                    let a = v4(10, 88, 0, 1 + rng.below(200) as u8, 9000);
                    let e = build_enr(&sk, 1, EnrAddr::Socket(a), None);
                    let pid = e.node_id().raw();
                    if log2(&me, &pid) <= 252 {
                        s.w.nodes[*i].b.off_distance_record = Some((rlp_ref::encode_record(&e), pid));
                        s.w.nodes[*i].b.lose_replies = 0;
                        liars.push((*i, pid));
                        break;
                    }
                }
            }
        }
        let boot = 1 + rng.usize(6);
        let mut boots = all.clone();
        rng.shuffle(&mut boots);
        for i in boots.iter().take(boot) {
            s.add_enr(*i);
        }
        let nlookups = 1 + rng.usize(3);
        let vid = s.w.victim_id;
        // Back-to-back lookups (no drain in between): leftovers of one lookup are still in flight
        // when the next starts, so the checks that attribute wire traffic to "the" lookup are off
        // and only what must hold regardless is judged.
        let tight = focus != Focus::C11 && rng.chance(1, 2);
        if tight {
            // some nodes answer late: after the lookup gave up on them, while the transport still waits
            for i in &all {
                if rng.chance(1, 3) {
                    s.w.nodes[*i].b.reply_delay = peer_timeout + Duration::from_millis(50 + rng.below(400));
                }
            }
        }
        // ---- overlapping lookups: every one of them must hand over a result ----
        if focus != Focus::C11 && rng.chance(if focus == Focus::C10 { 3 } else { 1 }, 5) {
            let k = 2 + rng.usize(3);
            let first = s.apis.len();
            let t_start = s.w.now();
            // answers take a while (20-150 ms, well below every timeout), so that the lookups,
            // started some way apart, really run next to each other and end at different times
            let slow_block = rng.chance(2, 3);
            let saved_delays: Vec<Duration> = s.w.nodes.iter().map(|n| n.b.reply_delay).collect();
            if slow_block {
                for i in 0..s.w.nodes.len() {
                    if s.w.nodes[i].b.reply_delay == Duration::ZERO {
                        s.w.nodes[i].b.reply_delay = Duration::from_millis(20 + rng.below(130));
                    }
                }
            }
            let mut seeds_of: HashMap<usize, HashSet<Id>> = HashMap::new();
            for j in 0..k {
                let target: Id = rng.array();
                seeds_of.insert(s.apis.len(), s.w.table().iter().map(|e| e.0).collect());
                s.api_find_node(target);
                let gap = Duration::from_millis(*rng.pick(&[1u64, 20, 100, 300]));
                s.advance(gap, rep).await;
                // start another one as soon as an earlier one has ended
                if j + 1 == k {
                    let deadline = s.w.now() + query_timeout;
                    while s.w.now() < deadline && s.apis[first..].iter().all(|a| a.done.is_none()) {
                        s.tick(rep).await;
                        tokio::time::sleep((request_timeout / 8).max(Duration::from_millis(2))).await;
                    }
                    let target: Id = rng.array();
                    seeds_of.insert(s.apis.len(), s.w.table().iter().map(|e| e.0).collect());
                    s.api_find_node(target);
                }
            }
            let bound = query_timeout + request_timeout * (retries as u32 + 1) * 16 + Duration::from_secs(3);
            while s.apis[first..].iter().any(|a| a.done.is_none()) && s.w.now() < t_start + bound * 2 {
                let n = s.tick(rep).await;
                if n == 0 {
                    tokio::time::sleep((request_timeout / 8).max(Duration::from_millis(2))).await;
                }
            }
            for a in &s.apis[first..] {
                rep.count("sys_overlapping_lookups");
                match &a.done {
                    None => s.flag(rep, Focus::C09, "C09:no-result", "a lookup running next to others never returned".into(), json!({"overlapping": k + 1})),
                    Some((_, ApiOut::Nodes(Err(e)))) => s.flag(rep, Focus::C09, "C09:lookup-returned-error", format!("a lookup running next to others returned the error {e} instead of a result"), json!({"overlapping": k + 1})),
                    Some((_, ApiOut::Nodes(Ok(v)))) => {
                        let ids: HashSet<Id> = v.iter().map(|e| e.node_id().raw()).collect();
                        if v.len() > 16 || ids.len() != v.len() {
                            s.flag(rep, Focus::C10, "C10:more-than-k-results", format!("{} nodes ({} distinct) returned by a lookup running next to others", v.len(), ids.len()), json!({"overlapping": k + 1}));
                        }
                    }
                    _ => {}
                }
            }
            // ---- completeness per lookup, where the wire tells which lookup a request belongs to:
            // a FINDNODE to peer P asks first for log2(target xor P), so a request is attributed
            // to a lookup when that value fits exactly one of the lookups running at that moment
            {
                let lookup_api: Vec<usize> = s.apis[first..].iter().enumerate().filter(|(_, a)| matches!((&a.target, &a.done), (Some(_), Some((_, ApiOut::Nodes(Ok(_))))))).map(|(n, _)| first + n).collect();
                let lookups: Vec<(Id, Duration, Duration, Vec<Id>)> = s.apis[first..].iter().filter_map(|a| match (&a.target, &a.done) {
                    (Some(t), Some((done, ApiOut::Nodes(Ok(v))))) => Some((*t, a.started, *done, v.iter().map(|e| e.node_id().raw()).collect())),
                    _ => None,
                }).collect();
                let pos0 = s.w.trace.iter().position(|(t, _)| *t >= t_start).unwrap_or(s.w.trace.len());
                let mut owner: HashMap<(usize, Vec<u8>), Option<usize>> = HashMap::new();
                let mut contacted: HashSet<Id> = HashSet::new();
                let mut told: Vec<(usize, Duration, Id)> = Vec::new(); // (lookup, when, candidate)
                let mut parts: HashMap<(usize, Vec<u8>), (u64, Vec<Vec<u8>>)> = HashMap::new();
                let mut sent_by: Vec<(usize, Duration)> = Vec::new();
                let mut named: Vec<(Option<usize>, Duration, Id)> = Vec::new();
                // every packet that may stand for a request to a node: (when, the lookup it belongs
                // to if the wire tells, whether it is an undecodable "random" packet). A random
                // packet belongs to the request that the handshake following it carries (one
                // request at a time opens a session; the others wait behind it); only the last
                // random packet before a handshake is attributed, every other one stays anybody's.
                let mut pkts: HashMap<Id, Vec<(Duration, Option<usize>, bool)>> = HashMap::new();
                for (at, e) in &s.w.trace[pos0..] {
                    match e {
                        WEv::Sent { node: Some(i), kind, msg, .. } => {
                            if *kind == "random" {
                                contacted.insert(s.w.id(*i));
                                pkts.entry(s.w.id(*i)).or_default().push((*at, None, true));
                            }
                            if let Some(RefMessage::FindNode { id, distances }) = msg {
                                contacted.insert(s.w.id(*i));
                                let pid = s.w.id(*i);
                                let fits: Vec<usize> = lookups.iter().enumerate().filter(|(_, (t, a, d, _))| *at >= *a && *at <= *d && distances.first() == Some(&log2(t, &pid))).map(|(k, _)| k).collect();
                                let o = *owner.entry((*i, id.clone())).or_insert(if fits.len() == 1 { Some(fits[0]) } else { None });
                                if let Some(k) = o {
                                    sent_by.push((k, *at));
                                }
                                let v = pkts.entry(pid).or_default();
                                if *kind == "handshake" && o.is_some() {
                                    if let Some(last) = v.last_mut() {
                                        if last.2 && last.1.is_none() {
                                            last.1 = o;
                                        }
                                    }
                                }
                                v.push((*at, o, false));
                            } else if msg.is_some() || *kind == "handshake" || *kind == "message" {
                                // any other packet to the node ends the run of random packets
                                pkts.entry(s.w.id(*i)).or_default().push((*at, None, false));
                            }
                        }
                        WEv::Injected { node: Some(i), msg: Some(RefMessage::Nodes { id, records, total }), .. } => {
                            // the records of an answer reach the lookup when its last packet is in
                            if let Some(o) = owner.get(&(*i, id.clone())) {
                                let entry = parts.entry((*i, id.clone())).or_insert((0u64, Vec::new()));
                                entry.0 += 1;
                                entry.1.extend(records.iter().cloned());
                                // (for "when did a lookup first hear of a node": every packet of an
                                // answer, whichever lookup it may belong to)
                                for r in records {
                                    if let Some(enr) = rlp_ref::decode_record(r) {
                                        named.push((*o, *at, enr.node_id().raw()));
                                    }
                                }
                                if let (Some(k), true) = (o, entry.0 == (*total).max(1)) {
                                    for r in &entry.1 {
                                        if let Some(enr) = rlp_ref::decode_record(r) {
                                            told.push((*k, *at, enr.node_id().raw()));
                                        }
                                    }
                                }
                            }
                        }
                        _ => {}
                    }
                }
                // an answer counts as taken in when the node announced its records right then
                let announced_at: Vec<(Duration, Id)> = s.w.events.iter().filter(|(t, _)| *t >= t_start).filter_map(|(t, e)| match e {
                    EvSum::Discovered(id, _) => Some((*t, *id)),
                    _ => None,
                }).collect();
                let told: Vec<(usize, Duration, Id)> = told.into_iter().filter(|(_, at, x)| announced_at.iter().any(|(t, id)| id == x && *t >= *at && *t <= *at + Duration::from_millis(3))).collect();
                let announced: HashSet<Id> = announced_at.iter().map(|(_, id)| *id).collect();
                for (k, (target, started, done, result)) in lookups.iter().enumerate() {
                    if *done >= *started + query_timeout || result.is_empty() {
                        continue;
                    }
                    let dist = |id: &Id| crate::props::kb::xor(id, target);
                    let farthest = result.iter().map(|id| dist(id)).max().unwrap();
                    let full = result.len() >= 16;
                    // (the call's return is noticed at the next step, which may be much later on the
                    // clock: that the lookup was still running after it had been told is taken from the
                    // wire - it sent another request of its own afterwards)
                    let skipped: Vec<String> = told.iter().filter(|(l, at, x)| *l == k && *at < *done && sent_by.iter().any(|(o, t)| *o == k && *t > *at + Duration::from_millis(1)) && announced.contains(x) && *x != vid && !contacted.contains(x) && s.w.node_by_id(x).is_some() && (!full || dist(x) < farthest)).map(|(_, _, x)| format!("{}=node{}", hx(&x[..4]), s.w.node_by_id(x).unwrap())).collect();
                    rep.count("sys_overlapping_lookups_judged_for_completeness");
                    if !skipped.is_empty() {
                        s.flag(rep, Focus::C10, "C10:candidate-not-contacted", format!("a lookup running next to others returned {} nodes without being cut off, yet {} candidates named in answers to its own requests were never contacted by anybody ({:?})", result.len(), skipped.len(), &skipped[..skipped.len().min(4)]), json!({"overlapping": k + 1, "target": hx(target)}));
                    }
                    // ... and by this very lookup: a candidate named to it is not done with because
                    // another lookup asked the same node. Judged where the wire tells the lookups
                    // apart: every packet sent to the candidate since this lookup began belongs,
                    // demonstrably, to another one.
                    if !full {
                        let others_only: Vec<String> = told.iter().filter(|(l, at, x)| *l == k && *at < *done && sent_by.iter().any(|(o, t)| *o == k && *t > *at + Duration::from_millis(1)) && announced.contains(x) && *x != vid && s.w.node_by_id(x).is_some())
                            .filter(|(_, _, x)| match pkts.get(x) {
                                Some(v) => {
                                    // (a request of this lookup may also have waited behind a handshake
                                    // that another request had opened before the lookup began, and
                                    // have failed with it without a packet of its own)
                                    // The lookup's request to the candidate is made after it first
                                    // heard of it: at its start for an entry of the table, else
                                    // with the first answer to one of its requests that named it.
                                    let seed = seeds_of.get(&lookup_api[k]).map_or(true, |t| t.contains(x));
                                    let heard = if seed { *started } else { named.iter().filter(|(l, t, y)| l.map_or(true, |l| l == k) && y == x && *t >= *started).map(|(_, t, _)| *t).min().unwrap_or(*started) };
                                    let from = heard.saturating_sub(request_timeout * (retries as u32 + 1) + Duration::from_millis(50));
                                    let mine: Vec<_> = v.iter().filter(|(t, _, _)| *t >= from).collect();
                                    // (no packet at all in that window: the lookup made no request
                                    // to the candidate either - a request of its own, or the random
                                    // packet of the handshake it waited behind, would be there)
                                    mine.iter().all(|(_, o, _)| matches!(o, Some(j) if *j != k))
                                }
                                None => false,
                            })
                            .map(|(_, _, x)| format!("{}=node{}", hx(&x[..4]), s.w.node_by_id(x).unwrap())).collect();
                        rep.count("sys_overlapping_lookups_judged_per_lookup");
                        if !others_only.is_empty() {
                            s.flag(rep, Focus::C10, "C10:candidate-left-to-another-lookup", format!("a lookup running next to others returned {} nodes without being cut off, yet {} candidates named in answers to its own requests got no request of this lookup: since it can first have heard of them, every packet sent to them belongs to another lookup, or there is none ({:?})", result.len(), others_only.len(), &others_only[..others_only.len().min(4)]), json!({"overlapping": k + 1, "target": hx(target)}));
                        }
                    }
                }
            }
            for (i, d) in saved_delays.iter().enumerate() {
                s.w.nodes[i].b.reply_delay = *d;
            }
            let pause = request_timeout * (retries as u32 + 4) + Duration::from_millis(500);
            s.advance(pause, rep).await;
        }
        for _ in 0..nlookups {
            let target: Id = match rng.below(4) {
                0 => s.w.id(*rng.pick(&all)),
                1 => vid,
                _ => rng.array(),
            };
            let predicate = rng.chance(1, 3);
            // (now and then "as many as there are": the largest count the type can express)
            let want = if rng.chance(1, 10) { usize::MAX } else { 1 + rng.usize(16) };
            let t_start = s.w.now();
            let pos0 = s.w.trace.len();
            let call = s.apis.len();
            s.w.note(format!("lookup starts: target {} predicate {predicate} wanted {want}", hx(&target[..4])));
            // what the lookup starts from: the table entries (all of them when there are at most k)
            let seeds: Vec<Id> = s.w.table().iter().map(|e| e.0).collect();
            if predicate {
                s.api_find_node_predicate(target, want);
            } else {
                s.api_find_node(target);
            }
            // the user removes table entries while the lookup is running: a candidate the lookup
            // already knows of stays a candidate
            if !predicate && rng.chance(1, 4) && !seeds.is_empty() {
                s.tick(rep).await;
                for _ in 0..(1 + rng.usize(2)) {
                    let id = *rng.pick(&seeds);
                    let removed = s.w.discv5.remove_node(&NodeId::new(&id));
                    s.w.note(format!("user removes {} from the table: {removed}", hx(&id[..4])));
                    rep.count("sys_lookup_seed_removed_mid_lookup");
                }
            }
            // run until the call returns (bounded by the query timeout plus what the transport needs)
            // The cut-off is noticed when the service task next wakes up (its query pool registers
            // no timer of its own); what wakes it at the latest is the end of the last outstanding
            // request, whose timer restarts with every partial NODES packet (15 at most).
            // (A lookup that is asked for more results than there are nodes ends when it has been
            // through every candidate, one request timeout each at parallelism 1; the query timeout
            // itself runs on the wall clock, which hardly moves while the rig's clock races ahead.)
            let bound = query_timeout + request_timeout * (retries as u32 + 1) * (16 + s.w.nodes.len() as u32) + Duration::from_secs(3);
            // (in some lookups the user also removes entries later on, at any moment: an entry
            // the lookup was told about while it was a table entry stays a candidate too)
            let late_removals = !predicate && rng.chance(1, 4);
            while s.apis[call].done.is_none() && s.w.now() < t_start + bound {
                let n = s.tick(rep).await;
                if n == 0 {
                    tokio::time::sleep((request_timeout / 8).max(Duration::from_millis(2))).await;
                }
                // ... preferably one that a NODES answer has just named
                let just_named: Vec<Id> = match (late_removals, &s.w.last_injected) {
                    (true, Some(inj)) => match &inj.tag.msg {
                        Some(RefMessage::Nodes { records, .. }) => records.iter().filter_map(|r| rlp_ref::decode_record(r)).map(|e| e.node_id().raw()).collect(),
                        _ => vec![],
                    },
                    _ => vec![],
                };
                if late_removals && (rng.chance(1, 10) || (!just_named.is_empty() && rng.bool())) {
                    let entries = s.w.table();
                    let named_entries: Vec<Id> = entries.iter().map(|e| e.0).filter(|id| just_named.contains(id)).collect();
                    if !entries.is_empty() {
                        let id = if named_entries.is_empty() { entries[rng.usize(entries.len())].0 } else { *rng.pick(&named_entries) };
                        let removed = s.w.discv5.remove_node(&NodeId::new(&id));
                        s.w.note(format!("user removes {} from the table: {removed}", hx(&id[..4])));
                        rep.count("sys_lookup_entries_removed_later");
                    }
                }
            }
            rep.count("sys_lookups");
            let wit = json!({"target": hx(&target), "predicate": predicate, "wanted": want, "parallelism": parallelism, "query_timeout_s": query_timeout.as_secs(), "peer_timeout_ms": peer_timeout.as_millis() as u64, "request_timeout_ms": request_timeout.as_millis() as u64, "retries": retries, "max_nodes_response": max_nodes});
            let Some((t_done, out)) = &s.apis[call].done else {
                s.flag(rep, Focus::C09, "C09:no-result", format!("the lookup did not return within {bound:?} (query timeout {query_timeout:?})"), wit.clone());
                continue;
            };
            let t_done = *t_done;
            let summary = match out { ApiOut::Nodes(Ok(v)) => format!("{} nodes: {:?}", v.len(), v.iter().map(|e| hx(&e.node_id().raw()[..4])).collect::<Vec<_>>()), other => format!("{other:?}") };
            s.w.note(format!("lookup returned at {t_done:?}: {summary}"));
            let cut_off = t_done >= t_start + query_timeout;
            // ---- what the wire saw during the lookup ----
            // requests: (node, request id) -> first transmission; answers: first NODES packet delivered
            let mut first_tx: HashMap<(usize, Vec<u8>), Duration> = HashMap::new();
            let mut answered: HashMap<(usize, Vec<u8>), Duration> = HashMap::new();
            let mut learned: HashSet<Id> = HashSet::new();
            let mut learned_at: HashMap<Id, Duration> = HashMap::new();
            let mut partial: HashMap<(usize, Vec<u8>), (u64, Vec<Vec<u8>>, bool)> = HashMap::new();
            let mut activity: HashMap<(usize, Vec<u8>), Duration> = HashMap::new();
            let mut all_tx: HashMap<(usize, Vec<u8>), Vec<Duration>> = HashMap::new();
            for (at, e) in &s.w.trace[pos0..] {
                match e {
                    WEv::Sent { node: Some(i), msg: Some(RefMessage::FindNode { id, .. }), .. } => {
                        first_tx.entry((*i, id.clone())).or_insert(*at);
                        all_tx.entry((*i, id.clone())).or_default().push(*at);
                        let a = activity.entry((*i, id.clone())).or_insert(*at);
                        *a = (*a).max(*at);
                    }
                    WEv::Injected { node: Some(i), msg: Some(RefMessage::Nodes { id, records, .. }), .. } if *at <= t_done => {
                        // an answer packet counts while the transport still waits for it: its timer
                        // restarts with every transmission and every accepted packet
                        let alive = activity.get(&(*i, id.clone())).map(|last| *at <= *last + request_timeout).unwrap_or(false);
                        if alive {
                            activity.insert((*i, id.clone()), *at);
                            answered.entry((*i, id.clone())).or_insert(*at);
                            // records reach the lookup when the answer is complete (a partial
                            // answer is only used when its request finally times out, which may
                            // be after the lookup has ended: not counted as learnt here)
                            let total = match e {
                                WEv::Injected { msg: Some(RefMessage::Nodes { total, .. }), .. } => *total,
                                _ => 1,
                            };
                            // the receiving side stops collecting when it has `total` packets, 15
                            // packets, or (before this packet) max_nodes_response records
                            let acc = partial.entry((*i, id.clone())).or_insert((1u64, Vec::new(), false));
                            if !acc.2 {
                                let more = total > 1 && acc.1.len() < max_nodes && acc.0 < total && acc.0 < 15;
                                acc.1.extend(records.iter().cloned());
                                if more {
                                    acc.0 += 1;
                                } else {
                                    acc.2 = true;
                                    for r in &acc.1 {
                                        if let Some(e) = rlp_ref::decode_record(r) {
                                            learned.insert(e.node_id().raw());
                                            learned_at.entry(e.node_id().raw()).or_insert(*at);
                                        }
                                    }
                                }
                            }
                        }
                    }
                    _ => {}
                }
            }
            rep.count_n("sys_lookup_requests", first_tx.len() as u64);
            // one request per peer
            let mut per_node: HashMap<usize, usize> = HashMap::new();
            for (i, _) in first_tx.keys() {
                *per_node.entry(*i).or_default() += 1;
            }
            for (i, n) in &per_node {
                if *n > 1 && !tight {
                    s.flag(rep, Focus::C09, "C09:peer-asked-twice", format!("node {i} received {n} different FINDNODE requests during one lookup"), wit.clone());
                }
            }
            // in flight, as far as the wire can tell: a transmission of it left less than one request
            // timeout ago (whatever the retry policy, the transport waits that long after each
            // transmission), nothing was delivered for it yet, and the lookup's own peer timeout has
            // not passed
            let mut points: Vec<Duration> = first_tx.values().copied().collect();
            points.sort();
            let mut max_inflight = 0usize;
            for p in &points {
                let n = first_tx
                    .iter()
                    .filter(|(k, t0)| **t0 <= *p && *p < **t0 + peer_timeout && all_tx[*k].iter().any(|t| *t <= *p && *p < *t + request_timeout) && answered.get(*k).map(|a| *a > *p).unwrap_or(true))
                    .count();
                max_inflight = max_inflight.max(n);
            }
            rep.max("sys_lookup_max_inflight", max_inflight as u64);
            // the statement allows up to the number of wanted results once the lookup has stalled;
            // a stall is not visible on the wire, so only that larger bound is judged here
            let cap = parallelism.max(if predicate { want } else { 16 });
            // a request that fails early (a second WHOAREYOU after a duplicated datagram, ...) frees
            // its slot without a trace on the wire: judged only when the network neither duplicates nor delays
            if max_inflight > cap && s.w.faults.dup == 0 && s.w.faults.delay == 0 && !tight {
                s.flag(rep, Focus::C09, "C09:too-many-in-flight", format!("{max_inflight} lookup requests were in flight at once (parallelism {parallelism}, results wanted {})", if predicate { want } else { 16 }), wit.clone());
            }
            if max_inflight > parallelism {
                rep.count("sys_lookups_above_parallelism_possibly_stalled");
            }
            if t_done > t_start + query_timeout + request_timeout * (retries as u32 + 1) + Duration::from_millis(500) {
                rep.count("sys_lookups_cut_off_late_at_next_wakeup");
            }
            // ---- the result ----
            let ApiOut::Nodes(Ok(result)) = out else {
                rep.count("sys_lookup_errors");
                // the service is running: a lookup hands back a result, never an error
                s.flag(rep, Focus::C09, "C09:lookup-returned-error", format!("the lookup returned {out:?} instead of a result"), wit.clone());
                continue;
            };
            rep.count_n("sys_lookup_results", result.len() as u64);
            let limit = if predicate { want } else { 16 };
            if result.len() > limit {
                s.flag(rep, Focus::C10, "C10:more-than-k-results", format!("{} nodes returned, at most {limit} allowed", result.len()), wit.clone());
            }
            let ids: Vec<Id> = result.iter().map(|e| e.node_id().raw()).collect();
            let uniq: HashSet<Id> = ids.iter().copied().collect();
            if uniq.len() != ids.len() {
                s.flag(rep, Focus::C10, "C10:duplicate-result", "a node occurs twice in the result".into(), wit.clone());
            }
            let dist = |id: &Id| crate::props::kb::xor(id, &target);
            if ids.windows(2).any(|w| dist(&w[0]) > dist(&w[1])) {
                s.flag(rep, Focus::C10, "C10:result-not-sorted", "the result is not in increasing distance to the target".into(), wit.clone());
            }
            for e in result {
                let id = e.node_id().raw();
                let Some(i) = s.w.node_by_id(&id) else {
                    s.flag(rep, Focus::C10, "C10:unknown-node-in-result", "the result contains a node that does not exist in the network".into(), wit.clone());
                    continue;
                };
                if !answered.keys().any(|(n, _)| *n == i) {
                    s.flag(rep, Focus::C10, "C10:result-node-did-not-answer", format!("node {i} is in the result although no answer of it to this lookup reached the node under test"), wit.clone());
                }
                if predicate && e.seq() % 2 != 0 {
                    s.flag(rep, Focus::C10, "C10:predicate-violated", format!("node {i} is in the result with a record (seq {}) that does not satisfy the predicate", e.seq()), wit.clone());
                }
            }
            if !predicate && result.len() < 16 && !cut_off {
                // complete: every candidate it learned of was contacted
                // contacted = a lookup request, or the session-initiating packet that precedes it,
                // was put on the wire for that node
                let mut contacted: HashSet<Id> = first_tx.keys().map(|(i, _)| s.w.id(*i)).collect();
                // ... including one of an earlier exchange that may still be waiting for its
                // WHOAREYOU when this lookup starts: the lookup's request is then queued behind it
                // and never shows on the wire if that node stays silent
                let pending_window = request_timeout * (retries as u32 + 1) + Duration::from_secs(1);
                for (at, e) in &s.w.trace {
                    if let WEv::Sent { node: Some(i), kind: "random", .. } = e {
                        if *at + pending_window >= t_start && *at <= t_done {
                            contacted.insert(s.w.id(*i));
                        }
                    }
                }
                // ... and "learnt" is confirmed by the node's own announcement of the record
                let announced: HashSet<Id> = s.w.events.iter().filter(|(t, _)| *t >= t_start && *t <= t_done).filter_map(|(_, e)| match e {
                    EvSum::Discovered(id, _) => Some(*id),
                    _ => None,
                }).collect();
                let seeds_all_taken = seeds.len() <= 16;
                if seeds_all_taken {
                    rep.count("sys_lookups_with_all_seeds_known");
                }
                // (back-to-back lookups: an answer seen in this window may belong to a request of the
                // previous lookup, so only the seeds are held against this one)
                let missing: Vec<String> = learned.iter().filter(|id| !tight && announced.contains(*id)).chain(seeds.iter().filter(|_| seeds_all_taken)).filter(|id| **id != vid && !contacted.contains(*id) && s.w.node_by_id(id).is_some()).map(|id| format!("{}=node{}", hx(&id[..4]), s.w.node_by_id(id).unwrap())).collect();
                rep.count("sys_lookups_judged_for_completeness");
                if !missing.is_empty() {
                    s.flag(rep, Focus::C10, "C10:candidate-not-contacted", format!("the lookup returned {} nodes without being cut off, yet it never contacted {} candidates it had learnt of ({:?})", result.len(), missing.len(), &missing[..missing.len().min(4)]), wit.clone());
                }
            }
            if !predicate && !cut_off && !tight && focus != Focus::C11 && result.len() >= 16 {
                // a full result: the lookup walks its candidates in order of distance and stops at
                // the 16th that answered, so every candidate it had learnt of that is closer to
                // the target than the farthest node of the result was contacted on the way
                let farthest = result.iter().map(|e| dist(&e.node_id().raw())).max().unwrap();
                let mut contacted: HashSet<Id> = first_tx.keys().map(|(i, _)| s.w.id(*i)).collect();
                let pending_window = request_timeout * (retries as u32 + 1) + Duration::from_secs(1);
                for (at, e) in &s.w.trace {
                    if let WEv::Sent { node: Some(i), kind: "random", .. } = e {
                        if *at + pending_window >= t_start && *at <= t_done {
                            contacted.insert(s.w.id(*i));
                        }
                    }
                }
                let announced: HashSet<Id> = s.w.events.iter().filter(|(t, _)| *t >= t_start && *t <= t_done).filter_map(|(_, e)| match e {
                    EvSum::Discovered(id, _) => Some(*id),
                    _ => None,
                }).collect();
                // (the call's return is noticed one step after the lookup ended, and an answer may
                // complete in that very millisecond: that the lookup was still running after it had
                // learnt of the candidate is taken from the wire - it sent another request later)
                let last_request = first_tx.values().copied().max().unwrap_or(Duration::ZERO);
                let skipped: Vec<String> = learned.iter().filter(|id| learned_at.get(*id).map(|t| *t + Duration::from_millis(1) < last_request).unwrap_or(false) && announced.contains(*id) && **id != vid && !contacted.contains(*id) && s.w.node_by_id(id).is_some() && dist(id) < farthest).map(|id| format!("{}=node{}", hx(&id[..4]), s.w.node_by_id(id).unwrap())).collect();
                rep.count("sys_full_results_judged_for_skipped_candidates");
                if !skipped.is_empty() && std::env::var("DV5_DEBUG").is_ok() {
                    for (at, e) in &s.w.trace[pos0..] {
                        if let WEv::Injected { node: Some(i), msg: Some(RefMessage::Nodes { id, records, total }), .. } = e {
                            for r in records {
                                if let Some(enr) = rlp_ref::decode_record(r) {
                                    let x = enr.node_id().raw();
                                    if skipped.iter().any(|sk| sk.starts_with(&hx(&x[..4]))) {
                                        eprintln!("DEBUG named: {} at {:?} by node {i} in answer #{} total {total}; t_done {:?}", hx(&x[..4]), at, hx(id), t_done);
                                    }
                                }
                            }
                        }
                    }
                    let mut ranks: Vec<(Vec<u8>, String)> = result.iter().map(|e| (dist(&e.node_id().raw()).to_vec(), hx(&e.node_id().raw()[..4]))).collect();
                    ranks.sort();
                    eprintln!("DEBUG result by distance: {:?}", ranks.iter().map(|(d, n)| format!("{n}:{}", hx(&d[..3]))).collect::<Vec<_>>());
                    for id in learned.iter().filter(|id| skipped.iter().any(|sk| sk.starts_with(&hx(&id[..4])))) {
                        eprintln!("DEBUG skipped {} dist {}", hx(&id[..4]), hx(&dist(id)[..3]));
                    }
                }
                if !skipped.is_empty() {
                    s.flag(rep, Focus::C10, "C10:closer-candidate-not-contacted", format!("the lookup returned a full result, yet {} candidates it had learnt of that are closer to the target than the farthest returned node were never contacted ({:?})", skipped.len(), &skipped[..skipped.len().min(4)]), wit.clone());
                }
            }
            rep.fingerprint(&("sys-lookup", focus, predicate, result.len().min(17), max_inflight.min(6), cut_off, big, parallelism));
            // let every request of this lookup end (and every delayed datagram arrive) before the
            // next one starts, so that what is on the wire during a lookup belongs to it
            let pause = if tight { Duration::from_millis(*rng.pick(&[1u64, 10, 60])) } else { request_timeout * (retries as u32 + 4) + Duration::from_millis(*rng.pick(&[10u64, 500, 3000])) };
            s.advance(pause, rep).await;
        }
        s.w.faults = Faults3::default();
        s.settle_all(Duration::from_secs(20), rep).await;
        // ---- C11: who got banned, and what surfaced ----
        if focus == Focus::C11 {
            let bans = discv5::verif::ban_list_snapshot();
            let is_banned = |s: &Sys, i: usize| bans.ban_nodes.contains_key(&NodeId::new(&s.w.id(i))) || bans.ban_ips.contains_key(&s.w.nodes[i].sim.addr().ip());
            let liar_idx: HashSet<usize> = liars.iter().map(|(i, _)| *i).collect();
            for i in 0..s.w.nodes.len() {
                // (the filter's quota in the tight variant is far below one answer: an answer that
                // arrives after this node gave up on the request - because a datagram of an earlier
                // exchange with that peer was lost and that request ran out - is unsolicited traffic
                // and may exhaust the quota; only peers with a loss-free history are judged)
                if !liar_idx.contains(&i) && is_banned(&s, i) && tight_filter && s.w.nodes[i].lost_any {
                    rep.count("sys_honest_bans_not_judged_after_loss");
                    continue;
                }
                if !liar_idx.contains(&i) && is_banned(&s, i) {
                    s.flag(rep, Focus::C11, "C11:honest-responder-banned", format!("node {i}, which answered every request as the protocol prescribes (or not at all), is on the ban list"), json!({"node": i}));
                }
            }
            rep.count_n("sys_honest_nodes_checked_for_bans", (s.w.nodes.len() - liar_idx.len()) as u64);
            if tight_filter {
                rep.count_n("sys_honest_nodes_checked_for_bans_under_tight_filter", (s.w.nodes.len() - liar_idx.len()) as u64);
            }
            for (i, pid) in &liars {
                if s.w.events.iter().any(|(_, e)| matches!(e, EvSum::Discovered(id, _) if id == pid)) || s.w.table().iter().any(|e| e.0 == *pid) {
                    s.flag(rep, Focus::C11, "C11:off-distance-record-accepted", format!("the record node {i} returned at a distance that was not requested surfaced (Discovered event or table entry)"), json!({"node": i}));
                }
                // the record travels in the first packet of the answer: if that packet reached the
                // node under test while it was still waiting for it, the responder must be banned
                let mut delivered_alive = false;
                for (t_served, n, rid) in &s.w.off_distance_served {
                    if n != i {
                        continue;
                    }
                    let tx: Vec<Duration> = s.w.trace.iter().filter_map(|(t, e)| match e {
                        WEv::Sent { node: Some(k), msg: Some(RefMessage::FindNode { id, .. }), .. } if k == i && id == rid => Some(*t),
                        _ => None,
                    }).collect();
                    // the packet that carries the record (another packet of the answer may have been
                    // lost or may arrive first)
                    let phantom_raw = s.w.nodes[*i].b.off_distance_record.as_ref().map(|(r, _)| r.clone()).unwrap_or_default();
                    let first_packet = s.w.trace.iter().find_map(|(t, e)| match e {
                        WEv::Injected { node: Some(k), msg: Some(RefMessage::Nodes { id, records, .. }), .. } if k == i && id == rid && *t >= *t_served && records.contains(&phantom_raw) => Some(*t),
                        _ => None,
                    });
                    if let Some(tp) = first_packet {
                        // ... and it is the first packet of that answer to arrive (after other
                        // packets the request may already be complete and the packet is ignored)
                        let earlier = s.w.trace.iter().any(|(t, e)| *t < tp && matches!(e, WEv::Injected { node: Some(k), msg: Some(RefMessage::Nodes { id, .. }), .. } if k == i && id == rid));
                        // ... and the request was not failed meanwhile (a second WHOAREYOU from
                        // the responder fails it and drops the session), and the node under test
                        // could read the packet (it did not answer it with a WHOAREYOU)
                        let t0 = tx.iter().copied().min().unwrap_or(tp);
                        let challenges_from_responder = s.w.trace.iter().filter(|(t, e)| *t >= t0 && *t <= tp && matches!(e, WEv::Injected { node: Some(k), label, .. } if k == i && label.starts_with("whoareyou"))).count();
                        let unreadable = s.w.trace.iter().any(|(t, e)| *t >= tp && *t <= tp + Duration::from_millis(2) && matches!(e, WEv::Sent { node: Some(k), kind: "whoareyou", .. } if k == i));
                        if !earlier && challenges_from_responder <= 1 && !unreadable && tx.iter().any(|t| *t <= tp && tp < *t + request_timeout) {
                            delivered_alive = true;
                        }
                    }
                }
                if delivered_alive {
                    rep.count("sys_off_distance_answers_delivered");
                    if !is_banned(&s, *i) {
                        s.flag(rep, Focus::C11, "C11:off-distance-responder-not-banned", format!("node {i} returned a record at a distance that was not requested, in a packet the node under test was waiting for, and is not banned"), json!({"node": i}));
                    }
                }
            }
        }
        s.finish(rep);
        if std::env::var("DV5_TRACE").is_ok() {
            eprintln!("{}", serde_json::to_string_pretty(&s.w.dump(100000)).unwrap());
        }
        rep.evaluations += 1;
        rep.count("sys_lookup_scenarios");
        if rep.want_sample() && rng.chance(1, 10) {
            rep.sample(json!({"scenario_seed": seed.to_string(), "kind": "system-lookup", "nodes": s.w.nodes.len(), "lookups": nlookups, "parallelism": parallelism, "datagrams_sent": s.w.all_sent.len(), "trace_tail": s.w.dump(10)}));
        }
    });
}

pub fn run_lookups(p: &crate::util::Params, focus: Focus, tag: u64, quick: u64, thorough: u64, rep: &mut Report) {
    let n = p.budget(quick, thorough);
    for i in 0..n {
        let seed = p.shard_seed(tag + i);
        crate::util::guarded(rep, seed, |rep| lookup(seed, focus, rep));
    }
}

/* ---------------------------------------------------------------------------------------- */
/* C17 on the full stack: the external address follows the PONGs of real exchanges             */

pub fn votes(seed: u64, rep: &mut Report) {
    let rt = runtime(seed);
    rt.block_on(async {
        let mut rng = Rng::new(seed ^ 0x0717);
        let min = 2 + rng.usize(5);
        // Votes are stamped with the wall clock (std::time::Instant), which the paused runtime does
        // not control: expiry cannot be exercised in virtual time (the service rig of C17 does it
        // in real time). The whole scenario stays well inside one vote duration of either clock.
        let vote_duration = Duration::from_secs(300);
        let ping = *rng.pick(&[5u64, 9]);
        let dual = rng.chance(1, 3);
        let cfg = WorldCfg {
            stack: if dual { Stack3::Dual } else { Stack3::V4 },
            victim_enr_has_addr: rng.bool(),
            request_timeout: Duration::from_millis(500),
            request_retries: 1,
            tweak: Box::new(move |b| {
                b.enr_peer_update_min(min);
                b.vote_duration(vote_duration);
                b.ping_interval(Duration::from_secs(ping));
                b.auto_nat_listen_duration(None);
            }),
        };
        let mut s = Sys::start(seed, Focus::C17, cfg, 16).await;
        s.vote_min = min;
        s.vote_duration = vote_duration;
        s.talk_policy = 0;
        let n = min + rng.usize(9);
        let nv6 = if dual { 1 + rng.usize(min + 3) } else { 0 };
        let spec = NetSpec { n, silent: rng.usize(2), mismatched: 0, no_addr: 0, v6: nv6 };
        let mut all = build_net(&mut s, &spec);
        rng.shuffle(&mut all);
        // liars: fewer than the minimum most of the time, sometimes enough to win
        let liars = if rng.chance(1, 4) { rng.usize(n + 1) } else { rng.usize(min) };
        let lie_a = v4(198, 51, 100, 7, 30303);
        let lie_b = v4(203, 0, 113, 9, 30303);
        let together = rng.bool();
        let lie6_a = v6(0x666, 30303);
        let lie6_b = v6(0x667, 30303);
        for (k, i) in all.iter().enumerate().take(liars) {
            let six = s.w.nodes[*i].sim.addr().is_ipv6();
            let first = together || k % 2 == 0;
            s.w.nodes[*i].b.pong_addr = Some(match (six, first) {
                (false, true) => lie_a,
                (false, false) => lie_b,
                (true, true) => lie6_a,
                (true, false) => lie6_b,
            });
        }
        if rng.chance(1, 3) {
            s.w.faults = Faults3 { drop: rng.below(150), dup: rng.below(80), delay: rng.below(100), ..Default::default() };
        }
        // Only peers this node dialled itself count as voters, and a node added by the user keeps
        // the direction "incoming": start from one or two added nodes and let lookups find (and
        // dial) the rest.
        for i in all.iter().rev().take(1 + rng.usize(2)) {
            s.add_enr(*i);
        }
        // outgoing sessions come from the node's own lookups; incoming ones from the peers
        let rounds = 2 + rng.usize(4);
        for _ in 0..rounds {
            match rng.below(4) {
                0 | 1 => {
                    let t: Id = rng.array();
                    s.api_find_node(t);
                }
                2 => {
                    let i = *rng.pick(&all);
                    if !s.w.nodes[i].b.silent {
                        let seq = s.w.nodes[i].sim.ident.enr.seq();
                        s.w.node_request(i, RefMessage::Ping { id: vec![], enr_seq: seq });
                    }
                }
                _ => {
                    // a liar changes its story
                    if liars > 0 {
                        let i = all[rng.usize(liars)];
                        let six = s.w.nodes[i].sim.addr().is_ipv6();
                        s.w.nodes[i].b.pong_addr = Some(if six { *rng.pick(&[lie6_a, lie6_b, crate::rig::r3::VICTIM_V6]) } else { *rng.pick(&[lie_a, lie_b, VICTIM_V4]) });
                    }
                }
            }
            let d = Duration::from_secs(1 + rng.below(2 * ping + 3));
            s.advance(d, rep).await;
        }
        s.w.faults = Faults3::default();
        s.settle_all(Duration::from_secs(12), rep).await;
        s.finish(rep);
        if std::env::var("DV5_TRACE").is_ok() {
            eprintln!("{}", serde_json::to_string_pretty(&s.w.dump(100000)).unwrap());
        }
        let eligible_votes = s.votes.iter().filter(|v| v.3).count();
        rep.evaluations += 1;
        rep.count("sys_vote_scenarios");
        rep.count_n("sys_votes_delivered", s.votes.len() as u64);
        rep.count_n("sys_votes_of_eligible_peers", eligible_votes as u64);
        if liars > 0 && liars < min {
            rep.count("sys_vote_scenarios_with_fewer_liars_than_minimum");
        }
        rep.fingerprint(&("sys-votes", min, liars.min(8), s.address_updates.min(4), together, dual));
        if rep.want_sample() && s.address_updates > 0 {
            rep.sample(json!({"scenario_seed": seed.to_string(), "kind": "system-votes", "minimum": min, "nodes": n, "liars": liars, "address_updates": s.address_updates, "votes_delivered": s.votes.len(), "final_address": s.w.discv5.local_enr().udp4_socket().map(|a| a.to_string())}));
        }
    });
}

pub fn run_votes(p: &crate::util::Params, tag: u64, quick: u64, thorough: u64, rep: &mut Report) {
    let n = p.budget(quick, thorough);
    for i in 0..n {
        let seed = p.shard_seed(tag + i);
        crate::util::guarded(rep, seed, |rep| votes(seed, rep));
    }
}

/* ---------------------------------------------------------------------------------------- */
/* real concurrency: user threads on the public API while the node talks to the network       */

/// Structural walk of the live routing table under its own read lock (never mutating).
fn walk_table(d: &discv5::Discv5, local: &Id, ip_limit: bool, incoming_limit: usize, out: &mut Vec<(String, String)>) -> (usize, usize) {
    d.with_kbuckets(|kb| {
        let kb = kb.read();
        let mut seen: HashSet<Id> = HashSet::new();
        let mut table_subnets: HashMap<[u8; 3], usize> = HashMap::new();
        let mut entries = 0usize;
        let mut full = 0usize;
        for (bi, b) in kb.buckets_iter().enumerate() {
            let nodes: Vec<_> = b.iter().collect();
            entries += nodes.len();
            if nodes.len() > 16 {
                out.push(("too-many-nodes".into(), format!("bucket {bi} holds {} nodes", nodes.len())));
            }
            if nodes.len() == 16 {
                full += 1;
            }
            let mut seen_connected = false;
            let mut incoming_connected = 0usize;
            let mut subnets: HashMap<[u8; 3], usize> = HashMap::new();
            for n in &nodes {
                let id = n.key.preimage().raw();
                if id == *local {
                    out.push(("local-node-stored".into(), format!("the local id sits in bucket {bi}")));
                }
                if log2(local, &id) != bi as u64 + 1 {
                    out.push(("wrong-bucket".into(), format!("a node at log2 distance {} sits in bucket {bi}", log2(local, &id))));
                }
                if !seen.insert(id) {
                    out.push(("duplicate-id".into(), format!("node {} occurs twice", hx(&id[..4]))));
                }
                if n.status.is_connected() {
                    seen_connected = true;
                    if n.status.is_incoming() {
                        incoming_connected += 1;
                    }
                } else if seen_connected {
                    out.push(("disconnected-after-connected".into(), format!("bucket {bi}: a disconnected node follows a connected one")));
                }
                if let Some(ip) = n.value.ip4() {
                    let o = ip.octets();
                    *subnets.entry([o[0], o[1], o[2]]).or_default() += 1;
                    *table_subnets.entry([o[0], o[1], o[2]]).or_default() += 1;
                }
            }
            if let Some(p) = b.pending() {
                let id = p.value().node_id().raw();
                if seen.contains(&id) {
                    out.push(("duplicate-id".into(), format!("node {} is stored and pending in bucket {bi}", hx(&id[..4]))));
                }
            }
            if incoming_connected > incoming_limit {
                out.push(("too-many-incoming".into(), format!("bucket {bi} has {incoming_connected} connected incoming nodes, limit {incoming_limit}")));
            }
            if ip_limit {
                if let Some((sn, c)) = subnets.iter().find(|(_, c)| **c > 2) {
                    out.push(("bucket-subnet-limit".into(), format!("bucket {bi} holds {c} nodes of {sn:?}/24")));
                }
            }
        }
        if ip_limit {
            if let Some((sn, c)) = table_subnets.iter().find(|(_, c)| **c > 10) {
                out.push(("table-subnet-limit".into(), format!("the table holds {c} nodes of {sn:?}/24")));
            }
        }
        (entries, full)
    })
}

/// An unmodified Discv5 on a multi-thread runtime in real time: the network loop feeds it
/// datagrams while user threads call the public API. Only schedule-independent monitors run:
/// the structural walk of the table under its lock (C07, C12 local id, C16 limits), nonce
/// uniqueness and datagram size over everything sent, no panic in the crate.
pub fn concurrent(seed: u64, focus: Focus, rep: &mut Report) {
    use std::sync::atomic::{AtomicBool, AtomicU64, Ordering};
    use std::sync::Arc;
    let rt = tokio::runtime::Builder::new_multi_thread().worker_threads(3).enable_all().build().expect("runtime");
    rt.block_on(async {
        let mut rng = Rng::new(seed ^ 0x3717);
        let ip_limit = rng.bool();
        let incoming_limit = *rng.pick(&[16usize, 16, 3, 0]);
        let cfg = WorldCfg {
            stack: Stack3::V4,
            victim_enr_has_addr: true,
            request_timeout: Duration::from_millis(40),
            request_retries: 1,
            tweak: Box::new(move |b| {
                if ip_limit {
                    b.ip_limit();
                }
                b.incoming_bucket_limit(incoming_limit);
                b.ping_interval(Duration::from_millis(150));
                b.query_timeout(Duration::from_millis(800));
                b.query_peer_timeout(Duration::from_millis(100));
            }),
        };
        let mut s = Sys::start(seed, focus, cfg, 16).await;
        // many nodes in few /24s so that the limits matter, ids spread by chance
        let n = 40 + rng.usize(40);
        let mut all = Vec::new();
        for k in 0..n {
            let subnet = if rng.chance(2, 3) { 1 } else { 2 + rng.below(6) as u8 };
            let a = v4(10, 20, subnet, 1 + (k % 250) as u8, 9000 + k as u16);
            all.push(s.w.add_node(a, EnrAddr::Socket(a), 1 + rng.below(3)));
        }
        let total = s.w.nodes.len();
        for i in 0..total {
            let mut nb: Vec<usize> = (0..total).filter(|j| *j != i).collect();
            s.w.rng.shuffle(&mut nb);
            nb.truncate(12);
            s.w.nodes[i].neighbours = nb;
        }
        let enrs: Vec<Enr> = all.iter().map(|i| s.w.enr(*i)).collect();
        let local = s.w.victim_id;
        let d = s.w.discv5.clone();
        let stop = Arc::new(AtomicBool::new(false));
        let found: Arc<Mutex<Vec<(String, String)>>> = Arc::new(Mutex::new(Vec::new()));
        let walks = Arc::new(AtomicU64::new(0));
        let api_ops = Arc::new(AtomicU64::new(0));
        let max_entries = Arc::new(AtomicU64::new(0));
        let full_seen = Arc::new(AtomicU64::new(0));
        let handle = tokio::runtime::Handle::current();
        let mut threads = Vec::new();
        for t in 0..3u64 {
            let (d, stop, found, walks, api_ops, enrs, handle, max_entries, full_seen) = (d.clone(), stop.clone(), found.clone(), walks.clone(), api_ops.clone(), enrs.clone(), handle.clone(), max_entries.clone(), full_seen.clone());
            let mut r = Rng::new(seed ^ (0x7000 + t));
            threads.push(std::thread::spawn(move || {
                while !stop.load(Ordering::Relaxed) {
                    api_ops.fetch_add(1, Ordering::Relaxed);
                    match r.below(40) {
                        0..=15 => {
                            let _ = d.add_enr(r.pick(&enrs).clone());
                        }
                        16..=19 => {
                            let _ = d.remove_node(&r.pick(&enrs).node_id());
                        }
                        20..=22 => {
                            let _ = d.table_entries();
                        }
                        23..=25 => {
                            let _ = d.nodes_by_distance(vec![256, 255, 254]);
                        }
                        26 | 27 => {
                            let id = r.pick(&enrs).node_id();
                            d.ban_node(&id, Some(Duration::from_millis(5)));
                            d.ban_node_remove(&id);
                        }
                        28 | 29 => {
                            let _ = d.disconnect_node(&r.pick(&enrs).node_id());
                        }
                        30 if r.chance(1, 8) => {
                            let target: Id = r.array();
                            let fut = d.find_node(NodeId::new(&target));
                            let _ = handle.block_on(async { tokio::time::timeout(Duration::from_millis(120), fut).await });
                        }
                        _ => {
                            let mut out = Vec::new();
                            let (entries, full) = walk_table(&d, &local, ip_limit, incoming_limit, &mut out);
                            walks.fetch_add(1, Ordering::Relaxed);
                            max_entries.fetch_max(entries as u64, Ordering::Relaxed);
                            full_seen.fetch_add(full as u64, Ordering::Relaxed);
                            if !out.is_empty() {
                                found.lock().extend(out);
                            }
                        }
                    }
                }
            }));
        }
        // the network: real time, the simulated nodes keep talking to the node under test
        let steps = 250 + rng.usize(250);
        for _ in 0..steps {
            match rng.below(8) {
                0 | 1 => {
                    let i = *rng.pick(&all);
                    let seq = s.w.nodes[i].sim.ident.enr.seq();
                    s.w.node_request(i, RefMessage::Ping { id: vec![], enr_seq: seq });
                }
                2 => {
                    let i = *rng.pick(&all);
                    s.w.node_request(i, RefMessage::FindNode { id: vec![], distances: vec![256, 255] });
                }
                3 => {
                    let i = *rng.pick(&all);
                    s.w.node_lose_session(i);
                }
                _ => {}
            }
            s.w.step().await;
            s.w.end_step();
            for (_, t) in std::mem::take(&mut s.w.talk_inbox) {
                let _ = t.respond(vec![1]);
            }
        }
        stop.store(true, Ordering::Relaxed);
        for t in threads {
            let _ = tokio::task::block_in_place(|| t.join());
        }
        let mut out = Vec::new();
        walk_table(&d, &local, ip_limit, incoming_limit, &mut out);
        found.lock().extend(out);
        let wit = json!({"scenario_seed": seed.to_string(), "kind": "system-concurrent", "focus": focus.tag(), "ip_limit": ip_limit, "incoming_limit": incoming_limit, "note": "real-time multi-thread run: the schedule is not reproducible from the seed"});
        for (sig, what) in found.lock().iter() {
            let prop = match sig.as_str() {
                "bucket-subnet-limit" | "table-subnet-limit" => Focus::C16,
                "local-node-stored" => Focus::C12,
                _ => Focus::C07,
            };
            // the local id in the table breaks C07 as well as C12
            if prop == focus || (sig == "local-node-stored" && focus == Focus::C07) {
                rep.violation(&format!("{}:{sig}", focus.tag()), format!("{what} (seen under concurrent API calls)"), wit.clone());
            }
        }
        // schedule-independent wire checks
        let mut nonces: HashMap<[u8; 12], Vec<u8>> = HashMap::new();
        for (_, to, b) in &s.w.all_sent {
            if b.len() > 1280 && focus == Focus::C14 {
                rep.violation("C14:datagram-exceeds-1280", format!("a datagram of {} bytes was sent to {to}", b.len()), wit.clone());
            }
            let Some(i) = s.w.nodes.iter().position(|n| n.sim.addr() == *to) else { continue };
            let Ok(dec) = codec_ref::decode(&s.w.nodes[i].sim.ident.id, b) else { continue };
            if !matches!(dec.kind, RefKind::WhoAreYou { .. }) {
                if let Some(prev) = nonces.insert(dec.nonce, b.clone()) {
                    if prev != *b && focus == Focus::C19 {
                        rep.violation("C19:nonce-reused", format!("two different datagrams carry message nonce {}", hx(&dec.nonce)), wit.clone());
                    }
                }
            }
        }
        rep.evaluations += 1;
        rep.count("sys_concurrent_scenarios");
        rep.count_n("sys_concurrent_table_walks", walks.load(Ordering::Relaxed));
        rep.count_n("sys_concurrent_api_calls", api_ops.load(Ordering::Relaxed));
        rep.count_n("sys_concurrent_full_buckets_seen", full_seen.load(Ordering::Relaxed));
        rep.count_n("sys_concurrent_datagrams_sent", s.w.all_sent.len() as u64);
        rep.max("sys_concurrent_table_size", max_entries.load(Ordering::Relaxed));
        rep.fingerprint(&("sys-concurrent", focus, ip_limit, incoming_limit, (max_entries.load(Ordering::Relaxed) / 8)));
    });
}

pub fn run_concurrent(p: &crate::util::Params, focus: Focus, tag: u64, quick: u64, thorough: u64, rep: &mut Report) {
    let n = p.budget(quick, thorough);
    for i in 0..n {
        let seed = p.shard_seed(tag + i);
        crate::util::guarded(rep, seed, |rep| concurrent(seed, focus, rep));
    }
}

/* ---------------------------------------------------------------------------------------- */
/* replay                                                                                    */

pub fn replay(r: &Value, rep: &mut Report) -> bool {
    if r["replay"]["kind"] == "system-concurrent" {
        let seed: u64 = r["replay"]["scenario_seed"].as_str().unwrap().parse().unwrap();
        let focus = match r["replay"]["focus"].as_str().unwrap_or("") {
            "C12" => Focus::C12,
            "C16" => Focus::C16,
            "C19" => Focus::C19,
            _ => Focus::C07,
        };
        concurrent(seed, focus, rep);
        return true;
    }
    if r["replay"]["kind"] != "system" {
        return false;
    }
    let seed: u64 = r["replay"]["scenario_seed"].as_str().unwrap().parse().unwrap();
    let focus = match r["replay"]["focus"].as_str().unwrap_or("") {
        "C01" => Focus::C01,
        "C02" => Focus::C02,
        "C03" => Focus::C03,
        "C04" => Focus::C04,
        "C07" => Focus::C07,
        "C16" => Focus::C16,
        "C09" => Focus::C09,
        "C10" => Focus::C10,
        "C11" => Focus::C11,
        "C12" => Focus::C12,
        "C13" => Focus::C13,
        "C14" => Focus::C14,
        "C17" => Focus::C17,
        "C19" => Focus::C19,
        _ => Focus::C20,
    };
    match focus {
        Focus::C01 => attack(seed, rep),
        Focus::C09 | Focus::C10 | Focus::C11 => lookup(seed, focus, rep),
        Focus::C17 => votes(seed, rep),
        _ => mixed(seed, focus, rep),
    }
    true
}

pub fn run_mixed(p: &crate::util::Params, focus: Focus, tag: u64, quick: u64, thorough: u64, rep: &mut Report) {
    let n = p.budget(quick, thorough);
    for i in 0..n {
        let seed = p.shard_seed(tag + i);
        crate::util::guarded(rep, seed, |rep| mixed(seed, focus, rep));
    }
}

/// Debug entry: `dv5mon SYS` runs every kind of system scenario with every monitor's violations
/// reported under its own focus (used to tune the rig, not registered as a check).
pub fn run_debug(p: &crate::util::Params) -> Report {
    let mut rep = Report::new("SYS");
    if let Some(r) = &p.replay {
        replay(r, &mut rep);
        return rep;
    }
    let n = p.budget(400, 20_000);
    for i in 0..n {
        let seed = p.shard_seed(0x515_000 + i);
        for f in [Focus::C02, Focus::C03, Focus::C04, Focus::C12, Focus::C13, Focus::C14, Focus::C19, Focus::C20] {
            crate::util::guarded(&mut rep, seed, |rep| mixed(seed, f, rep));
        }
        crate::util::guarded(&mut rep, seed, |rep| attack(seed, rep));
        for f in [Focus::C09, Focus::C10, Focus::C11] {
            crate::util::guarded(&mut rep, seed, |rep| lookup(seed, f, rep));
        }
        crate::util::guarded(&mut rep, seed, |rep| votes(seed, rep));
        if i % 8 == 0 {
            for f in [Focus::C07, Focus::C16] {
                crate::util::guarded(&mut rep, seed, |rep| concurrent(seed, f, rep));
            }
        }
    }
    rep
}
