//! C14 — served FINDNODE and PING answers are correct and fit a datagram.
//!
//! R2 rig: a real service with scripted handler. The table is filled through `with_kbuckets`
//! with crafted keys (the table is generic over keys) and records of 60..300 bytes; requests are
//! emitted as the handler would deliver them and the `HandlerIn::Response` batch is judged.

use super::kb::{self, Id};
use crate::peer::peersim::{build_enr2, signing_key, EnrAddr};
use crate::peer::rlp_ref::{self, RefMessage};
use crate::rig::r1::{v4, v6};
use crate::rig::r2::{runtime, Mode, ServiceCfg, ServiceRig};
use crate::util::{hx, Params, Report, Rng};
use discv5::enr::NodeId;
use discv5::verif::{HandlerIn, HandlerOut, Request, RequestBody, ResponseBody};
use discv5::{Enr, NodeAddress, RequestId};
use serde_json::json;
use std::collections::HashSet;
use std::net::SocketAddr;

pub fn enr_pool(rng: &mut Rng, n: usize) -> Vec<Enr> {
    let mut big: Vec<Enr> = (0..24)
        .filter_map(|i| {
            let sk = signing_key(rng);
            crate::peer::peersim::record_of_size(&sk, 1 + rng.below(9), Some(v4(10, 4, 0, 1 + i as u8, 9600 + i as u16)), 300 - (i % 3))
        })
        .collect();
    let mut rest: Vec<Enr> = (0..n)
        .map(|i| {
            let sk = signing_key(rng);
            let a = v4(10, 3, (i / 200) as u8, 1 + (i % 200) as u8, 9000 + i as u16);
            let pad = match i % 5 {
                0 => None,
                1 => Some(300),
                2 => Some(299),
                3 => Some(298),
                _ => Some(80 + rng.usize(220)),
            };
            build_enr2(&sk, 1 + rng.below(9), EnrAddr::Socket(a), if i % 7 == 0 { EnrAddr::Socket(v6(i as u16 + 1, 9000)) } else { EnrAddr::None }, pad)
        })
        .collect();
    big.append(&mut rest);
    rng.shuffle(&mut big);
    big
}

const WIRE_OVERHEAD: usize = 16 + 23 + 32 + 16;

pub fn scenario(seed: u64, pool: &[Enr], rep: &mut Report) {
    let rt = runtime(seed);
    rt.block_on(async {
        let mut rng = Rng::new(seed ^ 0xC14);
        let max_nodes = *rng.pick(&[1usize, 16, 16, 64]);
        let cfg = ServiceCfg { mode: Mode::Ip4, tweak: Box::new(move |b| {
            b.max_nodes_response(max_nodes);
        }), local_enr_has_addr: rng.bool() };
        // in a quarter of the cases the routing table's pending timeout is 40 ms instead of 60 s:
        // a candidate that waits next to a free slot becomes due before the first request, and
        // the request itself is then the first access to its bucket
        let due_mode = rng.chance(1, 4);
        if due_mode {
            discv5::verif::set_pending_timeout(Some(std::time::Duration::from_millis(40)));
        }
        let mut rig = ServiceRig::start(&mut rng, cfg).await;
        discv5::verif::set_pending_timeout(None);
        let mut due: Vec<(u64, Id, Vec<u8>)> = Vec::new();
        let local: Id = rig.local_id.raw();
        // ---- fill the table ----
        let ndist = 2 + rng.usize(5);
        let mut dists: Vec<u64> = Vec::new();
        while dists.len() < ndist {
            let d = if rng.chance(3, 4) { 256 - rng.below(12) } else { 1 + rng.below(256) };
            if !dists.contains(&d) {
                dists.push(d);
            }
        }
        let mut stored: Vec<(Id, Vec<u8>)> = Vec::new(); // key, record bytes
        let pool_start = rng.usize(pool.len());
        let mut pool_i = 0usize;
        for d in &dists {
            let want = match rng.below(4) {
                0 => 16,
                1 => 1 + rng.usize(3),
                _ => 1 + rng.usize(16),
            };
            let cap: usize = if *d >= 8 { 16 } else { 1usize << (*d - 1) };
            let mostly_connected = rng.chance(1, 3);
            let mut first_in_bucket = true;
            let mut disconnected: Vec<Id> = Vec::new();
            for _ in 0..want.min(cap) {
                let key = kb::id_at_distance(&mut rng, &local, *d);
                if stored.iter().any(|(k, _)| *k == key) {
                    continue;
                }
                if pool_i >= pool.len() {
                    break; // every record value is used for one key only
                }
                let enr = pool[(pool_start + pool_i) % pool.len()].clone();
                pool_i += 1;
                // (in some buckets nearly everybody is connected)
                let connected = if mostly_connected { !first_in_bucket } else { rng.bool() };
                first_in_bucket = false;
                let status = kb::status(connected, rng.bool());
                let r = rig.discv5.with_kbuckets(|t| t.write().insert_or_update(&kb::key(&key), enr.clone(), status));
                if matches!(r, discv5::kbucket::InsertResult::Inserted) {
                    stored.push((key, rlp_ref::encode_record(&enr)));
                    if !connected {
                        disconnected.push(key);
                    }
                }
            }
            // A bucket that is full may also hold a pending candidate (not a table entry: it is
            // not to be served), and may lose a member again while the candidate keeps waiting.
            let in_bucket: Vec<usize> = stored.iter().enumerate().filter(|(_, (k, _))| kb::log2(k, &local) == *d).map(|(i, _)| i).collect();
            if in_bucket.len() == 16 && pool_i < pool.len() && rng.chance(2, 3) {
                // a key that is not in the table yet (low buckets have few possible keys)
                let mut key = kb::id_at_distance(&mut rng, &local, *d);
                let mut tries = 0;
                while stored.iter().any(|(k, _)| *k == key) && tries < 40 {
                    key = kb::id_at_distance(&mut rng, &local, *d);
                    tries += 1;
                }
                if stored.iter().any(|(k, _)| *k == key) {
                    continue;
                }
                let enr = pool[(pool_start + pool_i) % pool.len()].clone();
                pool_i += 1;
                let r = rig.discv5.with_kbuckets(|t| t.write().insert_or_update(&kb::key(&key), enr.clone(), kb::status(true, false)));
                if matches!(r, discv5::kbucket::InsertResult::Pending { .. }) {
                    rep.count("buckets_with_pending_candidate");
                    if due_mode || rng.bool() {
                        // (preferably a disconnected member: the bucket may be left without any)
                        let gone = match in_bucket.iter().copied().find(|i| disconnected.contains(&stored[*i].0)) {
                            Some(i) if rng.bool() => i,
                            _ => in_bucket[rng.usize(in_bucket.len())],
                        };
                        let k = stored[gone].0;
                        if rig.discv5.with_kbuckets(|t| t.write().remove(&kb::key(&k))) {
                            stored.remove(gone);
                            rep.count("buckets_with_pending_candidate_and_free_slot");
                            if due_mode {
                                due.push((*d, key, rlp_ref::encode_record(&enr)));
                            }
                        }
                    }
                }
            }
        }
        if due_mode && !due.is_empty() {
            std::thread::sleep(std::time::Duration::from_millis(55));
            // read-only look: is every such candidate still waiting next to its free slot? (if the
            // process stalled between queueing it and freeing the slot, it was applied to the full
            // bucket instead: this table is then not what the bookkeeping says, and is not used)
            let as_planned = rig.discv5.with_kbuckets(|t| {
                let t = t.read();
                due.iter().all(|(d, _, rec)| t.buckets_iter().nth((*d - 1) as usize).map(|b| b.num_entries() == 15 && b.pending().map(|p| rlp_ref::encode_record(p.value()) == *rec).unwrap_or(false)).unwrap_or(false))
            });
            if !as_planned {
                rep.count("due_candidate_setups_raced");
                return;
            }
            // due now: whenever its distance is requested, the candidate is a table entry
            for (_, key, rec) in due.drain(..) {
                stored.push((key, rec));
                rep.count("due_candidates_next_to_a_free_slot");
            }
        }
        let nreq = 6 + rng.usize(10);
        for _ in 0..nreq {
            rep.evaluations += 1;
            // occasionally bump the local sequence number
            if rng.chance(1, 5) {
                let _ = rig.discv5.enr_insert("x", &rng.next_u64());
            }
            let requester_in_table = rng.chance(1, 3) && !stored.is_empty();
            let rid: Id = if requester_in_table { rng.pick(&stored).0 } else { rng.array() };
            let port = match rng.below(6) {
                0 => 0u16,
                _ => 1 + rng.below(65535) as u16,
            };
            let addr: SocketAddr = match rng.below(12) {
                0 | 1 => v6(7, port),
                2 => SocketAddr::new(std::net::IpAddr::V6(std::net::Ipv6Addr::LOCALHOST), port),
                3 => SocketAddr::new(std::net::IpAddr::V6(std::net::Ipv4Addr::new(10, 9, 0, 9).to_ipv6_mapped()), port),
                4 => SocketAddr::new(std::net::IpAddr::V6(std::net::Ipv6Addr::new(0, 0, 0, 0, 0, 0, 0x0a09, 0x0009)), port),
                _ => v4(10, 9, 0, 9, port),
            };
            let na = NodeAddress::new(addr, NodeId::new(&rid));
            let idlen = rng.usize(9);
            let req_id = rng.bytes(idlen);
            let ping = rng.chance(1, 4);
            rig.take_handler_in();
            if ping {
                rep.count("ping_requests");
                let seq_before = rig.local_enr().seq();
                rig.emit(HandlerOut::Request(na.clone(), Box::new(Request { id: RequestId(req_id.clone()), body: RequestBody::Ping { enr_seq: rng.below(3) } }))).await;
                rig.settle().await;
                let out = rig.take_handler_in();
                let pongs: Vec<_> = out.iter().filter_map(|m| match m {
                    HandlerIn::Response(to, r) => match &r.body {
                        ResponseBody::Pong { enr_seq, ip, port } => Some((to.clone(), r.id.0.clone(), *enr_seq, *ip, port.get())),
                        _ => None,
                    },
                    _ => None,
                }).collect();
                let w = json!({"scenario_seed": seed.to_string(), "kind": "ping", "source": addr.to_string(), "request_id": hx(&req_id), "pongs": format!("{pongs:?}")});
                if port == 0 {
                    rep.count("ping_from_port_zero");
                    if !pongs.is_empty() {
                        rep.violation("C14:pong-to-port-zero", "a PING observed from source port 0 was answered".into(), w);
                    }
                } else if pongs.len() != 1 {
                    rep.violation("C14:pong-count", format!("{} PONGs for one PING", pongs.len()), w);
                } else {
                    let (to, id, seq, ip, p) = &pongs[0];
                    if *to != na || *id != req_id {
                        rep.violation("C14:pong-misaddressed", "PONG carries another request id or destination".into(), w.clone());
                    }
                    if *ip != addr.ip() || *p != port {
                        rep.violation("C14:pong-wrong-address", format!("PONG reports {ip}:{p}, the request was observed from {addr}"), w.clone());
                    }
                    if *seq != seq_before {
                        rep.violation("C14:pong-wrong-seq", format!("PONG carries enr-seq {seq}, the local record has {seq_before}"), w);
                    }
                    rep.fingerprint(&("ping", addr.is_ipv6(), idlen));
                }
                continue;
            }
            // ---- FINDNODE ----
            let mut ds: Vec<u64> = Vec::new();
            match rng.below(9) {
                0 => {}
                1 => ds.push(0),
                8 => {
                    // every valid distance, 0 and 256 included, in some order; sometimes with a few more
                    ds = (0..=256u64).collect();
                    match rng.below(3) {
                        0 => {}
                        1 => ds.reverse(),
                        _ => rng.shuffle(&mut ds),
                    }
                    for _ in 0..rng.usize(4) {
                        let at = rng.usize(ds.len());
                        let extra = if rng.bool() { rng.below(257) } else { 257 + rng.below(50) };
                        ds.insert(at, extra);
                    }
                }
                2 => {
                    // long list: up to ~600 entries
                    let n = 100 + rng.usize(500);
                    for _ in 0..n {
                        ds.push(rng.below(257));
                    }
                }
                _ => {
                    let n = 1 + rng.usize(6);
                    for _ in 0..n {
                        ds.push(match rng.below(6) {
                            0 => 0,
                            1 => rng.below(257),
                            // far outside the valid range (the wire decoder refuses such a request;
                            // the service is handed it directly here), also values that equal an
                            // occupied distance after narrowing
                            2 => {
                                let occupied = dists[rng.usize(dists.len())];
                                let bit = *rng.pick(&[8u32, 16, 32, 48, 63]);
                                *rng.pick(&[257u64, 1000, u64::MAX, occupied + (1u64 << bit), occupied + (1u64 << bit)])
                            }
                            _ => dists[rng.usize(dists.len())],
                        });
                    }
                    if rng.bool() && !ds.is_empty() {
                        let d = ds[0];
                        ds.push(d); // duplicate
                    }
                }
            }
            rep.count("findnode_requests");
            rig.emit(HandlerOut::Request(na.clone(), Box::new(Request { id: RequestId(req_id.clone()), body: RequestBody::FindNode { distances: ds.clone() } }))).await;
            rig.settle().await;
            let out = rig.take_handler_in();
            let mut packets: Vec<(u64, Vec<Vec<u8>>)> = Vec::new();
            let w0 = json!({"scenario_seed": seed.to_string(), "kind": "findnode", "distances": ds.iter().take(20).collect::<Vec<_>>(), "n_distances": ds.len(), "max_nodes_response": max_nodes, "requester_in_table": requester_in_table, "request_id": hx(&req_id), "table": stored.iter().map(|(k, r)| json!({"distance": kb::log2(k, &local), "record_len": r.len()})).collect::<Vec<_>>()});
            for m in &out {
                if let HandlerIn::Response(to, r) = m {
                    if let ResponseBody::Nodes { total, nodes } = &r.body {
                        if *to != na || r.id.0 != req_id {
                            rep.violation("C14:nodes-misaddressed", "a NODES packet carries another request id or destination".into(), w0.clone());
                        }
                        packets.push((*total, nodes.iter().map(rlp_ref::encode_record).collect()));
                    }
                }
            }
            let mut w = w0.clone();
            w["packets"] = json!(packets.iter().map(|(t, n)| json!({"total": t, "records": n.len(), "bytes": n.iter().map(|r| r.len()).sum::<usize>()})).collect::<Vec<_>>());
            if packets.is_empty() {
                rep.violation("C14:no-answer", "a FINDNODE request got no NODES answer".into(), w);
                continue;
            }
            if packets.iter().any(|(t, _)| *t != packets.len() as u64) {
                rep.violation("C14:total-mismatch", format!("{} NODES packets but totals {:?}", packets.len(), packets.iter().map(|p| p.0).collect::<Vec<_>>()), w.clone());
            }
            // wire size of every packet
            for (total, recs) in &packets {
                let plain = RefMessage::Nodes { id: req_id.clone(), total: *total, records: recs.clone() }.encode();
                let wire = WIRE_OVERHEAD + plain.len();
                rep.max("wire_size", wire as u64);
                if wire > 1280 {
                    rep.violation("C14:packet-too-large", format!("a NODES packet encodes to {wire} bytes on the wire"), w.clone());
                }
            }
            // content
            let want_d: HashSet<u64> = ds.iter().copied().filter(|d| (1..=256).contains(d)).collect();
            let local_rec = rlp_ref::encode_record(&rig.local_enr());
            let eligible_all: Vec<&(Id, Vec<u8>)> = stored.iter().filter(|(k, _)| want_d.contains(&kb::log2(k, &local))).collect();
            let eligible: Vec<&Vec<u8>> = eligible_all.iter().filter(|(k, _)| *k != rid).map(|(_, r)| r).collect();
            let returned: Vec<&Vec<u8>> = packets.iter().flat_map(|(_, n)| n.iter()).collect();
            let returned_table: Vec<&Vec<u8>> = returned.iter().copied().filter(|r| **r != local_rec).collect();
            let returned_local = returned.len() - returned_table.len();
            if ds.contains(&0) {
                rep.count("distance_zero_requested");
                if returned_local != 1 {
                    rep.violation("C14:own-record-missing", format!("distance 0 requested but the local record was returned {returned_local} times"), w.clone());
                }
            } else if returned_local != 0 {
                rep.violation("C14:own-record-unrequested", "the local record was returned although distance 0 was not requested".into(), w.clone());
            }
            let mut seen: HashSet<&Vec<u8>> = HashSet::new();
            for r in &returned_table {
                if !seen.insert(r) {
                    rep.violation("C14:record-twice", "a record was returned twice".into(), w.clone());
                }
                if !eligible.contains(r) {
                    if std::env::var("DV5_DEBUG").is_ok() {
                        let wherev: Vec<String> = rig.discv5.with_kbuckets(|t| {
                            let t = t.read();
                            let mut out = Vec::new();
                            for (bi, b) in t.buckets_iter().enumerate() {
                                for n in b.iter() {
                                    if rlp_ref::encode_record(&n.value) == **r {
                                        out.push(format!("stored in bucket {bi} key {}", hx(&n.key.preimage().raw()[..4])));
                                    }
                                }
                                if let Some(p) = b.pending() {
                                    if rlp_ref::encode_record(p.value()) == **r {
                                        out.push(format!("pending in bucket {bi}"));
                                    }
                                }
                            }
                            out
                        });
                        eprintln!("offending record: {:?}; in harness list: {}; requested {:?}", wherev, stored.iter().any(|(_, rec)| rec == *r), want_d);
                    }
                    let requester_rec = eligible_all.iter().any(|(k, rec)| *k == rid && rec == *r);
                    rep.violation(if requester_rec { "C14:requester-record-returned" } else { "C14:off-distance-record" }, "a returned record is not a table entry at a requested distance (or is the requester's own)".into(), w.clone());
                }
            }
            if eligible_all.len() <= max_nodes {
                if returned_table.len() != eligible.len() {
                    rep.violation("C14:records-missing", format!("{} table entries at the requested distances, {} returned", eligible.len(), returned_table.len()), w.clone());
                }
            } else {
                rep.count("capped_answers");
                if returned_table.len() > max_nodes || returned_table.len() + 1 < max_nodes {
                    rep.violation("C14:cap-violated", format!("{} records returned, configured maximum {max_nodes}", returned_table.len()), w.clone());
                }
            }
            if packets.len() > 1 {
                rep.count("multi_packet_answers");
            }
            rep.fingerprint(&("findnode", ds.len().min(8), packets.len(), returned_table.len().min(20), requester_in_table, idlen, max_nodes));
            if rep.want_sample() && packets.len() > 1 {
                rep.sample(w);
            }
        }
    });
}

pub fn run(p: &Params) -> Report {
    let mut rep = Report::new("C14");
    if let Some(r) = &p.replay {
        if super::sys::replay(r, &mut rep) {
            return rep;
        }
    }
    let mut prng = Rng::new(p.shard_seed(14));
    let pool = enr_pool(&mut prng, 112);
    if let Some(r) = &p.replay {
        let seed: u64 = r["replay"]["scenario_seed"].as_str().unwrap().parse().unwrap();
        scenario(seed, &pool, &mut rep);
        return rep;
    }
    let n = p.budget(3_000, 300_000);
    for i in 0..n {
        let seed = p.shard_seed(0x14_0000 + i);
        crate::util::guarded(&mut rep, seed, |rep| scenario(seed, &pool, rep));
    }
    // full stack: an unmodified Discv5 inside a simulated network, judged on the wire and the API
    super::sys::run_mixed(p, super::sys::Focus::C14, 0x5C14_0000, 1600, 100000, &mut rep);
    rep
}
