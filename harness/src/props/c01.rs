//! C01 — a handshake proves node identity.
//!
//! Attacker model: M can *send* datagrams with any content from any source address and can *read*
//! only what the victim sends to addresses M owns. M never holds X's secret key.
//!
//! Each scenario: victim V, honest node X (peer 0), third node Y (peer 1), attacker M outside the
//! engine. The attack is a (random packet, handshake) pair claiming id X, built from the strategy
//! alphabet (attached record x signer x signed data x ephemeral key x source address), in one of
//! the victim's knowledge states, interleaved with genuine traffic of X. Afterwards the rig
//! probes for a session keyed to X that the attacker could use.
//!
//! Oracle: any effect for id X (Established / UnverifiableEnr / Request / Response attributed to
//! X, or traffic to the attacker's address that decrypts under keys the attacker can compute)
//! whose cause is an attacker datagram, or that happens at an address X never used, is a
//! violation. Positive control: genuine X can still complete a handshake afterwards.

use crate::peer::codec_ref::{self, RefKind};
use crate::peer::crypto_ref;
use crate::peer::peersim::{
    build_enr, handshake_packet, message_packet, random_packet, signing_key, EnrAddr, EphKey, HandshakeSpec, Id, SignedData, Signer,
};
use crate::peer::rlp_ref::{self, RefMessage};
use crate::rig::engine::{show_ev, Engine, Ev, InClass};
use crate::rig::r1::{runtime, v4, RigConfig};
use crate::util::{hx, Params, Report, Rng};
use discv5::enr::CombinedKey;
use discv5::verif::{HandlerIn, HandlerOut, Request, RequestBody};
use discv5::{NodeContact, RequestId};
use serde_json::{json, Value};
use std::net::SocketAddr;

#[derive(Clone, Copy, Debug, PartialEq, Eq, Hash)]
enum RecordChoice {
    None,
    OwnSeq0,
    OwnBelow,
    OwnEqual,
    OwnAbove,
    OwnMax,
    GenuineX,
    TamperedX,
    Ed25519,
    ThirdNode,
}

#[derive(Clone, Copy, Debug, PartialEq, Eq, Hash)]
enum SignerChoice {
    Attacker,
    Fresh,
    Garbage,
    Empty,
}

#[derive(Clone, Copy, Debug, PartialEq, Eq, Hash)]
enum EphChoice {
    Valid,
    Uncompressed,
    AttackerStatic,
    Garbage,
    WrongLength,
}

#[derive(Clone, Copy, Debug, PartialEq, Eq, Hash)]
enum Source {
    Attacker,
    SpoofX,
    Fresh,
}

#[derive(Clone, Copy, Debug, PartialEq, Eq, Hash)]
enum Knowledge {
    Unknown,
    Known,
    /// known, and a genuine session with X exists at X's real address
    KnownWithSession,
}

#[derive(Clone, Copy, Debug, PartialEq, Eq, Hash)]
enum Interleave {
    None,
    Between,
    After,
}

fn pick<T: Copy>(rng: &mut Rng, xs: &[T]) -> T {
    *rng.pick(xs)
}

fn trace_tail(e: &Engine, n: usize) -> Value {
    let evs: Vec<Value> = e
        .trace
        .iter()
        .filter(|t| !matches!(t.ev, Ev::Exemptions(_)))
        .map(|t| json!({"t_ms": t.at.as_millis() as u64, "ev": show_ev(&t.ev)}))
        .collect();
    let start = evs.len().saturating_sub(n);
    Value::Array(evs[start..].to_vec())
}

async fn drain(e: &mut Engine) {
    e.drain().await;
}

pub fn scenario(seed: u64, rep: &mut Report) {
    let rt = runtime(seed);
    rt.block_on(async {
        let mut rng = Rng::new(seed ^ 0xC01);
        let knowledge = pick(&mut rng, &[Knowledge::Unknown, Knowledge::Known, Knowledge::Known, Knowledge::KnownWithSession]);
        let record = pick(&mut rng, &[RecordChoice::None, RecordChoice::OwnSeq0, RecordChoice::OwnBelow, RecordChoice::OwnEqual, RecordChoice::OwnAbove, RecordChoice::OwnMax, RecordChoice::GenuineX, RecordChoice::TamperedX, RecordChoice::Ed25519, RecordChoice::ThirdNode]);
        let signer = pick(&mut rng, &[SignerChoice::Attacker, SignerChoice::Attacker, SignerChoice::Fresh, SignerChoice::Garbage, SignerChoice::Empty]);
        let signed = pick(&mut rng, &[SignedData::Correct, SignedData::Correct, SignedData::OtherChallenge, SignedData::WithoutEphKey, SignedData::OtherDestination]);
        let eph = pick(&mut rng, &[EphChoice::Valid, EphChoice::Valid, EphChoice::Valid, EphChoice::Uncompressed, EphChoice::AttackerStatic, EphChoice::Garbage, EphChoice::WrongLength]);
        let source = pick(&mut rng, &[Source::Attacker, Source::Attacker, Source::SpoofX, Source::Fresh]);
        let inter = pick(&mut rng, &[Interleave::None, Interleave::Between, Interleave::After]);
        let strategy = json!({"knowledge": format!("{knowledge:?}"), "record": format!("{record:?}"), "signer": format!("{signer:?}"), "signed": format!("{signed:?}"), "ephemeral": format!("{eph:?}"), "source": format!("{source:?}"), "genuine_traffic": format!("{inter:?}")});

        let mut e = Engine::new(seed, RigConfig::default(), 2, None).await;
        e.app_knows_peers = knowledge != Knowledge::Unknown;
        let vid = e.victim_id;
        let vpub = e.victim_pub;
        let x_id: Id = e.peers[0].sim.id();
        let x_addr = e.peers[0].sim.addr();
        let x_seq = e.peers[0].sim.ident.enr.seq();
        let y_id: Id = e.peers[1].sim.id();
        // the attacker
        let m_sk = signing_key(&mut rng);
        let m_addr = v4(10, 66, 6, 6, 6666);
        let fresh_addr = v4(10, 66, 7, 1 + rng.below(200) as u8, 7000 + rng.below(1000) as u16);
        let src: SocketAddr = match source {
            Source::Attacker => m_addr,
            Source::SpoofX => x_addr,
            Source::Fresh => fresh_addr,
        };
        let attacker_reads = source != Source::SpoofX;

        if knowledge == Knowledge::KnownWithSession {
            e.peer_request(0, 1);
            drain(&mut e).await;
        }

        // ---- attack datagram 1: a packet claiming to come from X ----
        let (d1, n1) = random_packet(&mut rng, &x_id, &vid);
        e.inject_now(None, src, d1, InClass::Crafted("attack:random-packet-claiming-X".into()));
        drain(&mut e).await;
        // the WHOAREYOU the victim sent to `src`, if the attacker can read it
        let challenge: Option<Vec<u8>> = if attacker_reads {
            e.trace.iter().rev().find_map(|t| match &t.ev {
                Ev::Sent { to, bytes, .. } if *to == src => match codec_ref::decode(&x_id, bytes) {
                    Ok(d) if matches!(d.kind, RefKind::WhoAreYou { .. }) && d.nonce == n1 => Some(d.aad),
                    _ => None,
                },
                _ => None,
            })
        } else {
            None
        };
        if challenge.is_some() {
            rep.count("attacker_obtained_challenge");
        }
        if inter == Interleave::Between {
            e.peer_request(0, 1);
            drain(&mut e).await;
        }

        // ---- attack datagram 2: the handshake ----
        let m_enr = |seq: u64| build_enr(&m_sk, seq, EnrAddr::Socket(src), None);
        let record_bytes: Option<Vec<u8>> = match record {
            RecordChoice::None => None,
            RecordChoice::OwnSeq0 => Some(rlp_ref::encode_record(&m_enr(0))),
            RecordChoice::OwnBelow => Some(rlp_ref::encode_record(&m_enr(x_seq.saturating_sub(1)))),
            RecordChoice::OwnEqual => Some(rlp_ref::encode_record(&m_enr(x_seq))),
            RecordChoice::OwnAbove => Some(rlp_ref::encode_record(&m_enr(x_seq + 45))),
            RecordChoice::OwnMax => Some(rlp_ref::encode_record(&m_enr(u64::MAX))),
            RecordChoice::GenuineX => Some(e.peers[0].sim.ident.record_bytes()),
            RecordChoice::TamperedX => {
                let mut b = e.peers[0].sim.ident.record_bytes();
                let n = b.len();
                b[n - 3] ^= 0x01; // somewhere in the content: signature no longer verifies
                Some(b)
            }
            RecordChoice::Ed25519 => {
                let key = CombinedKey::generate_ed25519();
                Some(rlp_ref::encode_record(&discv5::Enr::builder().seq(x_seq + 7).build(&key).unwrap()))
            }
            RecordChoice::ThirdNode => Some(e.peers[1].sim.ident.record_bytes()),
        };
        let fresh_sk = signing_key(&mut rng);
        let garbage_cd = rng.bytes(63);
        let wrong_len = 1 + rng.usize(60);
        let spec = HandshakeSpec {
            claimed_id: x_id,
            signer: match signer {
                SignerChoice::Attacker => Signer::Key(m_sk.clone()),
                SignerChoice::Fresh => Signer::Key(fresh_sk.clone()),
                SignerChoice::Garbage => Signer::Raw(rng.bytes(64)),
                SignerChoice::Empty => Signer::Raw(vec![]),
            },
            signed,
            eph: match eph {
                EphChoice::Valid => EphKey::Fresh,
                EphChoice::Uncompressed => EphKey::FreshUncompressed,
                EphChoice::AttackerStatic => EphKey::Raw(crypto_ref::compressed(m_sk.verifying_key())),
                EphChoice::Garbage => EphKey::Raw(rng.bytes(33)),
                EphChoice::WrongLength => EphKey::Raw(rng.bytes(wrong_len)),
            },
            record: record_bytes,
            dst: vid,
            dst_pub: &vpub,
            challenge_data: challenge.as_deref().unwrap_or(&garbage_cd),
            plaintext: &RefMessage::Ping { id: vec![0x66, 0x01], enr_seq: 1 }.encode(),
        };
        let mut hrng = rng.fork(2);
        let hs = handshake_packet(&mut hrng, &spec);
        // with the attacker's static key as "ephemeral" key it can still compute the session keys
        let attacker_keys = match (&hs.keys, eph) {
            (Some(k), _) => Some(k.clone()),
            (None, EphChoice::AttackerStatic) => {
                let secret = crypto_ref::ecdh(&vpub, &m_sk);
                let (ik, rk) = crypto_ref::derive_keys(&secret, spec.challenge_data, &x_id, &vid);
                Some(crate::peer::peersim::KeyGen { send: ik, recv: rk, peer_initiated: true })
            }
            _ => None,
        };
        e.inject_now(None, src, hs.datagram.clone(), InClass::Crafted("attack:handshake-claiming-X".into()));
        drain(&mut e).await;

        // ---- probes for a session keyed to X that the attacker can use ----
        if let Some(k) = &attacker_keys {
            let ping = RefMessage::Ping { id: vec![0x66, 0x02], enr_seq: 1 };
            let (b, _) = message_packet(&mut rng, &x_id, &vid, &k.send, &ping.encode());
            e.inject_now(None, src, b, InClass::Crafted("attack:probe-ping-under-forged-keys".into()));
            drain(&mut e).await;
        }
        // the application talks to (X, src): does anything come out that the attacker can read?
        let mark = e.trace.len();
        let contact = NodeContact::new(discv5::enr::CombinedPublicKey::Secp256k1(e.peers[0].sim.ident.public()), src, None);
        let probe_id = vec![0x66, 0x03];
        e.rig.submit(HandlerIn::Request(contact, Box::new(Request { id: RequestId(probe_id.clone()), body: RequestBody::Ping { enr_seq: 1 } })));
        e.log(Ev::Note("app submits probe request 6603 to (X, attack source address)".into()));
        drain(&mut e).await;
        if let Some(k) = &attacker_keys {
            for t in &e.trace[mark..] {
                if let Ev::Sent { to, bytes, .. } = &t.ev {
                    if *to == src && src != x_addr {
                        if let Ok(d) = codec_ref::decode(&x_id, bytes) {
                            if matches!(d.kind, RefKind::Message { .. }) && crypto_ref::gcm_decrypt(&k.recv, &d.nonce, &d.message, &d.aad).is_some() {
                                rep.violation("C01:traffic-for-X-readable-by-attacker", "the victim encrypted a message for X under keys the attacker can compute".into(), json!({"scenario_seed": seed.to_string(), "strategy": strategy, "trace": trace_tail(&e, 40)}));
                            }
                        }
                    }
                }
            }
        }
        if inter == Interleave::After {
            e.peer_request(0, 5);
            drain(&mut e).await;
        }

        // ---- positive control: genuine X can still authenticate ----
        let mark = e.trace.len();
        e.peer_lose_session(0);
        let ctl = e.peer_request(0, 1);
        drain(&mut e).await;
        let ok = e.trace[mark..].iter().any(|t| matches!(&t.ev, Ev::Out(HandlerOut::Request(na, r)) if na.node_id.raw() == x_id && na.socket_addr == x_addr && r.id.0 == ctl));
        if !ok {
            // e.g. the attack consumed X's challenge at a spoofed address: not a C01 matter
            rep.count("positive_control_failed");
            if source != Source::SpoofX {
                rep.inconclusive(format!("positive control failed: genuine X could not complete a handshake after the attack (seed {seed})"));
            }
        } else {
            rep.count("positive_control_ok");
        }

        // ---- oracle over the trace ----
        let mut last_input_is_attack = false;
        let mut effects = 0u64;
        for (i, t) in e.trace.iter().enumerate() {
            match &t.ev {
                Ev::Injected { class, .. } => last_input_is_attack = matches!(class, InClass::Crafted(s) if s.starts_with("attack:")),
                Ev::Submit { .. } | Ev::AnswerWru { .. } | Ev::AppResponse { .. } => {}
                Ev::Note(_) => last_input_is_attack = false,
                Ev::Out(out) => {
                    let (who, addr, what): (Option<Id>, Option<SocketAddr>, &str) = match out {
                        HandlerOut::Established(enr, a, _) => (Some(enr.node_id().raw()), Some(*a), "Established"),
                        HandlerOut::UnverifiableEnr { node_id, socket, .. } => (Some(node_id.raw()), Some(*socket), "UnverifiableEnr"),
                        HandlerOut::Request(na, r) => {
                            // the probe PING under forged keys
                            (Some(na.node_id.raw()), Some(na.socket_addr), if r.id.0.first() == Some(&0x66) { "Request(forged)" } else { "Request" })
                        }
                        HandlerOut::Response(na, _) => (Some(na.node_id.raw()), Some(na.socket_addr), "Response"),
                        _ => (None, None, ""),
                    };
                    let (Some(who), Some(addr)) = (who, addr) else { continue };
                    let about_x = who == x_id;
                    let about_y = who == y_id;
                    if !(about_x || about_y) {
                        continue;
                    }
                    effects += 1;
                    let foreign_addr = (about_x && addr != x_addr) || (about_y && addr != e.peers[1].sim.addr());
                    if foreign_addr || last_input_is_attack {
                        let sig = format!("C01:{}-for-{}-without-proof", what.trim_end_matches("(forged)").to_lowercase(), if about_x { "X" } else { "third-node" });
                        rep.violation(&sig, format!("{what} attributed to {} at {addr} caused by a party that does not hold that node's key", if about_x { "X" } else { "a third node" }), json!({"scenario_seed": seed.to_string(), "strategy": strategy, "event_index": i, "trace": trace_tail(&e, 45)}));
                    }
                }
                _ => {}
            }
        }
        rep.evaluations += 1;
        rep.count_n("effects_for_X_or_Y_observed", effects);
        rep.fingerprint(&(knowledge, record, signer, signed, eph, source, inter, challenge.is_some()));
        if rep.want_sample() && challenge.is_some() {
            rep.sample(json!({"scenario_seed": seed.to_string(), "strategy": strategy, "datagrams": [hx(&hs.datagram[..64.min(hs.datagram.len())])], "trace": trace_tail(&e, 14)}));
        }
    });
}

/// ENR-less dial: the dialled node A answers the handler's ENR request with another node's record.
pub fn scenario_enr_answer(seed: u64, rep: &mut Report) {
    let rt = runtime(seed);
    rt.block_on(async {
        let mut rng = Rng::new(seed ^ 0xE01);
        let mut e = Engine::new(seed, RigConfig::default(), 2, None).await;
        let a_addr = e.peers[0].sim.addr();
        let y_sk = signing_key(&mut rng);
        // Y's record: no UDP endpoint, or the same endpoint as A, or another endpoint
        let variant = rng.below(3);
        let y_enr = match variant {
            0 => build_enr(&y_sk, 3, EnrAddr::None, None),
            1 => build_enr(&y_sk, 3, EnrAddr::Socket(a_addr), None),
            _ => build_enr(&y_sk, 3, EnrAddr::Socket(v4(10, 9, 9, 9, 999)), None),
        };
        let y_id = y_enr.node_id().raw();
        // the answer: Y's record alone, or together with A's own record in either order
        let yr = rlp_ref::encode_record(&y_enr);
        let own = e.peers[0].sim.ident.record_bytes();
        let shape = rng.below(5);
        match shape {
            0 | 1 => e.peers[0].behaviour.nodes_record_override = Some(yr),
            2 => e.peers[0].behaviour.nodes_records_list = Some(vec![own, yr]),
            3 => e.peers[0].behaviour.nodes_records_list = Some(vec![yr, own]),
            _ => e.peers[0].behaviour.nodes_records_list = Some(vec![yr.clone(), yr]),
        }
        e.peers[0].behaviour.nodes_packets = 1;
        e.submit(0, 1, false);
        drain(&mut e).await;
        e.quiesce().await;
        rep.evaluations += 1;
        rep.count("enr_answer_scenarios");
        let internal_seen = e.trace.iter().any(|t| matches!(&t.ev, Ev::Injected { class: InClass::Message { msg: RefMessage::Nodes { .. }, .. }, .. }));
        if internal_seen {
            rep.count("foreign_record_answers_delivered");
        }
        for t in &e.trace {
            if let Ev::Out(HandlerOut::Established(enr, addr, _)) = &t.ev {
                if enr.node_id().raw() == y_id {
                    rep.violation("C01:established-for-third-node-without-proof", format!("a node dialled without record answered the ENR request with another node's record and that node was reported as established at {addr}"), json!({"scenario_seed": seed.to_string(), "variant": variant, "kind": "enr-answer", "trace": trace_tail(&e, 30)}));
                }
            }
            // Y took part in no handshake: it may not be reported as unverifiable either (the
            // service drops a node so reported from its routing table)
            if let Ev::Out(HandlerOut::UnverifiableEnr { node_id, socket, .. }) = &t.ev {
                if node_id.raw() == y_id {
                    rep.violation("C01:unverifiableenr-for-third-node-without-proof", format!("a node dialled without record answered the ENR request with another node's record and that node was reported as unverifiable at {socket}"), json!({"scenario_seed": seed.to_string(), "variant": variant, "kind": "enr-answer", "trace": trace_tail(&e, 30)}));
                }
            }
        }
        rep.fingerprint(&("enr-answer", variant, shape));
    });
}

pub fn run(p: &Params) -> Report {
    let mut rep = Report::new("C01");
    if let Some(r) = &p.replay {
        if super::sys::replay(r, &mut rep) {
            return rep;
        }
    }
    if let Some(r) = &p.replay {
        let seed: u64 = r["replay"]["scenario_seed"].as_str().unwrap().parse().unwrap();
        if r["replay"]["kind"] == "enr-answer" {
            scenario_enr_answer(seed, &mut rep);
        } else {
            scenario(seed, &mut rep);
        }
        return rep;
    }
    let n = p.budget(12_000, 600_000);
    for i in 0..n {
        if i % 12 == 11 {
            let seed = p.shard_seed(0xE01_0000 + i);
            crate::util::guarded(&mut rep, seed, |rep| scenario_enr_answer(seed, rep));
        } else {
            let seed = p.shard_seed(0x01_0000 + i);
            crate::util::guarded(&mut rep, seed, |rep| scenario(seed, rep));
        }
    }
    // full stack: the same attacker against an unmodified Discv5 inside a simulated network
    let n = p.budget(2400, 150000);
    for i in 0..n {
        let seed = p.shard_seed(0x5C01_0000 + i);
        crate::util::guarded(&mut rep, seed, |rep| super::sys::attack(seed, rep));
    }
    rep
}
