//! C05 — packet wire codec is exact, total and strict.
//!
//! Differential oracle against `codec_ref` (written from the wire spec) in both directions, plus
//! direct contract checks. `catch_unwind` around every call of the implementation decides the
//! "never a panic" clause.

use crate::peer::{
    codec_ref::{self, PacketReject, RawPacket, RefDecoded, RefKind},
    peersim::{build_enr2, signing_key, EnrAddr},
    rlp_ref,
};
use crate::util::{hx, Params, Report, Rng};
use discv5::enr::{CombinedKey, NodeId};
use discv5::packet::{PacketKind, ProtocolIdentity};
use discv5::verif::{packet_decode, packet_encode, DecodedPacket};
use discv5::Enr;
use serde_json::json;

pub fn record_pool(rng: &mut Rng, n: usize) -> Vec<Enr> {
    let mut pool = Vec::new();
    for i in 0..n {
        let sk = signing_key(rng);
        let a = crate::rig::r1::v4(10, 1, (i % 200) as u8, 1 + (i % 250) as u8, 9000 + i as u16);
        let b = crate::rig::r1::v6(i as u16 + 1, 9100 + i as u16);
        let (ea, eb) = match i % 4 {
            0 => (EnrAddr::Socket(a), EnrAddr::None),
            1 => (EnrAddr::Socket(b), EnrAddr::None),
            2 => (EnrAddr::Socket(a), EnrAddr::Socket(b)),
            _ => (EnrAddr::None, EnrAddr::None),
        };
        let pad = match i % 6 {
            0 => None,
            1 => Some(300),
            2 => Some(299),
            _ => Some(100 + rng.usize(200)),
        };
        pool.push(build_enr2(&sk, 1 + rng.below(1000), ea, eb, pad));
    }
    // records at and just below the 300-byte maximum (hand-built: the enr builder stops at 295)
    for (i, size) in [300usize, 300, 299, 298, 297, 296].iter().enumerate() {
        let sk = signing_key(rng);
        let a = crate::rig::r1::v4(10, 2, 0, 1 + i as u8, 9500 + i as u16);
        if let Some(e) = crate::peer::peersim::record_of_size(&sk, 1 + rng.below(1000), Some(a), *size) {
            pool.push(e);
        }
    }
    // two ed25519 records
    for _ in 0..2 {
        let key = CombinedKey::generate_ed25519();
        pool.push(Enr::builder().build(&key).expect("ed25519 record"));
    }
    pool
}

fn gen_iv(rng: &mut Rng) -> [u8; 16] {
    let mut iv: [u8; 16] = rng.array();
    match rng.below(8) {
        // counter-carry edge: low 64 bits within a few blocks of wrapping
        0 => {
            let low = u64::MAX - rng.below(90);
            iv[8..].copy_from_slice(&low.to_be_bytes());
        }
        1 => iv = [0xff; 16],
        2 => iv = [0; 16],
        _ => {}
    }
    iv
}

/// A well-formed packet in raw form.
fn gen_wellformed(rng: &mut Rng, pool: &[Enr], allow_oversize: bool) -> RawPacket {
    let iv = gen_iv(rng);
    let nonce: [u8; 12] = rng.array();
    match rng.below(3) {
        0 => {
            let src: [u8; 32] = rng.array();
            let max_body = 1280 - 16 - 23 - 32 + if allow_oversize { 60 } else { 0 };
            let len = match rng.below(4) {
                0 => 0,
                1 => max_body.min(1280 - 71),
                _ => rng.usize(max_body + 1),
            };
            RawPacket::new(iv, codec_ref::FLAG_MESSAGE, nonce, codec_ref::authdata_message(&src), rng.bytes(len))
        }
        1 => RawPacket::new(
            iv,
            codec_ref::FLAG_WHOAREYOU,
            nonce,
            codec_ref::authdata_whoareyou(&rng.array(), if rng.bool() { rng.next_u64() } else { rng.below(3) }),
            vec![],
        ),
        _ => {
            let src: [u8; 32] = rng.array();
            let (sig, key) = match rng.below(4) {
                0 => (64usize, 33usize),
                1 => (rng.usize(256), rng.usize(256)),
                2 => (255, 255),
                _ => (0, 0),
            };
            let record = if rng.bool() {
                Some(rlp_ref::encode_record(rng.pick(pool)))
            } else {
                None
            };
            let authdata = codec_ref::authdata_handshake(&src, &rng.bytes(sig), &rng.bytes(key), record.as_deref());
            let used = 16 + 23 + authdata.len();
            let room = 1280usize.saturating_sub(used) + if allow_oversize { 40 } else { 0 };
            let len = match rng.below(3) {
                0 => 0,
                1 => room,
                _ => rng.usize(room + 1),
            };
            RawPacket::new(iv, codec_ref::FLAG_HANDSHAKE, nonce, authdata, rng.bytes(len))
        }
    }
}

fn impl_decode(local: &[u8; 32], data: &[u8]) -> Result<Result<DecodedPacket, String>, ()> {
    let id = NodeId::new(local);
    crate::util::probe(|| {
        packet_decode(&id, ProtocolIdentity::default(), data).map_err(|e| format!("{e:?}"))
    })
}

fn kind_matches(k: &PacketKind, r: &RefKind) -> bool {
    match (k, r) {
        (PacketKind::Message { src_id }, RefKind::Message { src_id: s }) => &src_id.raw() == s,
        (PacketKind::WhoAreYou { id_nonce, enr_seq }, RefKind::WhoAreYou { id_nonce: n, enr_seq: s }) => {
            id_nonce == n && enr_seq == s
        }
        (
            PacketKind::Handshake { src_id, id_nonce_sig, ephem_pubkey, enr_record },
            RefKind::Handshake { src_id: s, id_signature, eph_pubkey, record },
        ) => {
            &src_id.raw() == s
                && id_nonce_sig == id_signature
                && ephem_pubkey == eph_pubkey
                && enr_record.as_ref().map(rlp_ref::encode_record) == *record
        }
        _ => false,
    }
}

fn same(d: &DecodedPacket, r: &RefDecoded) -> bool {
    d.iv.to_be_bytes() == r.iv
        && d.message_nonce == r.nonce
        && d.message == r.message
        && d.authenticated_data == r.aad
        && kind_matches(&d.kind, &r.kind)
}

/// Compare both decoders on one datagram. `origin` labels the generator for the evidence.
fn differential(rep: &mut Report, local: &[u8; 32], data: &[u8], origin: &str, wellformed: bool) {
    rep.evaluations += 1;
    rep.count(&format!("decode:{origin}"));
    let r = codec_ref::decode(local, data);
    let i = impl_decode(local, data);
    let replay = |note: &str| json!({"origin": origin, "note": note, "local_id": hx(local), "datagram": hx(data), "len": data.len(), "reference": format!("{:?}", r.as_ref().map(|d| &d.kind).map_err(|e| e.clone()))});
    let i = match i {
        Err(()) => {
            rep.violation("C05:decode-panic", format!("Packet::decode panicked on a {}-byte datagram ({origin})", data.len()), replay("panic"));
            return;
        }
        Ok(i) => i,
    };
    // whatever is accepted: the authenticated bytes handed out are the datagram's own IV and
    // unmasked header (static part and auth-data, as long as its size field says), byte for byte
    if let Ok(d) = &i {
        if data.len() >= 39 {
            let mut iv = [0u8; 16];
            iv.copy_from_slice(&data[..16]);
            let mut unmasked = data[16..].to_vec();
            codec_ref::mask(local, &iv, &mut unmasked);
            let auth_size = u16::from_be_bytes([unmasked[21], unmasked[22]]) as usize;
            if 23 + auth_size <= unmasked.len() {
                let mut wire = data[..16].to_vec();
                wire.extend_from_slice(&unmasked[..23 + auth_size]);
                rep.count("authenticated_bytes_compared_with_datagram");
                if d.authenticated_data != wire {
                    rep.violation("C05:authenticated-bytes-differ-from-datagram", format!("the authenticated data returned for an accepted datagram ({} bytes) is not the datagram's IV and unmasked header ({} bytes) ({origin})", d.authenticated_data.len(), wire.len()), replay("aad"));
                }
            }
        }
    }
    match (&i, &r) {
        (Ok(d), Ok(rd)) => {
            rep.count("both_accept");
            rep.fingerprint(&("acc", origin, data.len() / 64, std::mem::discriminant(&rd.kind)));
            if !same(d, rd) {
                rep.violation("C05:decode-mismatch", format!("decoded fields differ from the reference ({origin})"), replay("fields"));
            }
        }
        (Err(_), Err(why)) => {
            rep.count("both_reject");
            rep.count(&format!("reject:{why:?}"));
            rep.fingerprint(&("rej", origin, format!("{why:?}"), data.len() / 256));
        }
        (Ok(_), Err(why)) => {
            if why.named_by_statement() {
                rep.violation(&format!("C05:accepts-{why:?}"), format!("implementation accepts a datagram the specification rejects: {why:?} ({origin})"), replay("impl accepts"));
            } else {
                // e.g. bytes after the record inside a handshake's authdata: the statement does
                // not name this; recorded, never alarmed.
                rep.count(&format!("unclassified:impl-accepts:{why:?}"));
            }
        }
        (Err(e), Ok(_)) => {
            if wellformed {
                rep.violation("C05:rejects-wellformed", format!("implementation rejects a well-formed datagram: {e} ({origin})"), replay("impl rejects"));
            } else {
                rep.violation("C05:rejects-spec-valid", format!("implementation rejects a datagram the reference decoder accepts: {e} ({origin})"), replay("impl rejects"));
            }
        }
    }
}

fn check_wellformed(rep: &mut Report, rng: &mut Rng, pool: &[Enr]) {
    let p = gen_wellformed(rng, pool, true);
    let dst: [u8; 32] = rng.array();
    let want = p.encode(&dst);
    // encode through the implementation: needs typed fields, so decode the reference's own view
    let rd = match codec_ref::decode(&dst, &want) {
        Ok(rd) => rd,
        Err(PacketReject::TooLarge) => {
            differential(rep, &dst, &want, "oversize", false);
            return;
        }
        Err(e) => {
            rep.inconclusive(format!("generator produced a packet the reference rejects: {e:?}"));
            return;
        }
    };
    let kind = match &rd.kind {
        RefKind::Message { src_id } => PacketKind::Message { src_id: NodeId::new(src_id) },
        RefKind::WhoAreYou { id_nonce, enr_seq } => PacketKind::WhoAreYou { id_nonce: *id_nonce, enr_seq: *enr_seq },
        RefKind::Handshake { src_id, id_signature, eph_pubkey, record } => PacketKind::Handshake {
            src_id: NodeId::new(src_id),
            id_nonce_sig: id_signature.clone(),
            ephem_pubkey: eph_pubkey.clone(),
            enr_record: record.as_ref().map(|r| rlp_ref::decode_record(r).expect("pool record")),
        },
    };
    rep.evaluations += 1;
    rep.count("encode_roundtrip");
    let got = crate::util::probe(|| {
        packet_encode(
            u128::from_be_bytes(p.iv),
            p.nonce,
            ProtocolIdentity::default(),
            kind,
            p.message.clone(),
            &NodeId::new(&dst),
        )
    });
    let low = u64::from_be_bytes(p.iv[8..].try_into().unwrap());
    if low > u64::MAX - 90 {
        rep.count("iv_counter_carry_edge");
    }
    match got {
        Err(_) => rep.violation("C05:encode-panic", "Packet::encode panicked".into(), json!({"iv": hx(&p.iv), "dst": hx(&dst)})),
        Ok(bytes) => {
            if bytes != want {
                let carry = low > u64::MAX - 90;
                rep.violation(
                    if carry { "C05:encode-mismatch-ctr-carry" } else { "C05:encode-mismatch" },
                    format!("encoded datagram differs from the discv5.1 layout (iv low 64 bits {low:#x})"),
                    json!({"iv": hx(&p.iv), "dst": hx(&dst), "impl": hx(&bytes), "reference": hx(&want)}),
                );
            }
        }
    }
    differential(rep, &dst, &want, "wellformed", true);
    // another id: must not yield the same packet
    let other: [u8; 32] = rng.array();
    if let Ok(Ok(d)) = impl_decode(&other, &want) {
        if same(&d, &rd) {
            let other2: [u8; 32] = rng.array();
            if let Ok(Ok(d2)) = impl_decode(&other2, &want) {
                if same(&d2, &rd) {
                    rep.violation("C05:foreign-id-accepted", "a datagram masked for another node id decodes to the same packet".into(), json!({"datagram": hx(&want), "dst": hx(&dst), "other": hx(&other)}));
                }
            }
        } else {
            rep.count("foreign_id_decodes_to_other_packet");
        }
    } else {
        rep.count("foreign_id_rejected");
    }
    if rep.want_sample() {
        rep.sample(json!({"kind": format!("{:?}", rd.kind).chars().take(120).collect::<String>(), "len": want.len(), "datagram_prefix": hx(&want[..48.min(want.len())])}));
    }
}

fn check_mutation(rep: &mut Report, rng: &mut Rng, pool: &[Enr]) {
    let mut p = gen_wellformed(rng, pool, false);
    let dst: [u8; 32] = rng.array();
    let origin = match rng.below(9) {
        0 => {
            p.protocol_id[rng.usize(6)] ^= 1 << rng.below(8);
            "mut:protocol-id"
        }
        1 => {
            p.version[rng.usize(2)] ^= 1 << rng.below(8);
            "mut:version"
        }
        2 => {
            p.flag = rng.below(256) as u8;
            "mut:flag"
        }
        3 => {
            let real = p.authdata.len() as i64;
            if rng.chance(1, 3) {
                // the far end of the 16-bit field (sums with the fixed header length wrap there)
                p.authdata_size_override = Some(match rng.below(6) {
                    0 => 65535,
                    1 => 65535 - rng.below(64) as u16,
                    2 => 65512 + rng.below(3) as u16,
                    3 => 32768 - 2 + rng.below(4) as u16,
                    4 => 1280 - 40 + rng.below(80) as u16,
                    _ => rng.below(65536) as u16,
                });
            } else {
                let delta = *rng.pick(&[-40i64, -3, -2, -1, 1, 2, 3, 40, 1000]);
                p.authdata_size_override = Some((real + delta).clamp(0, 65535) as u16);
            }
            "mut:authsize"
        }
        4 => {
            if p.flag == codec_ref::FLAG_WHOAREYOU {
                let n = 1 + rng.usize(40);
                p.message = rng.bytes(n);
            } else {
                p.flag = codec_ref::FLAG_WHOAREYOU;
            }
            "mut:whoareyou-body"
        }
        5 => {
            // handshake size fields
            if p.flag == codec_ref::FLAG_HANDSHAKE && p.authdata.len() >= 34 {
                let which = 32 + rng.usize(2);
                p.authdata[which] = rng.below(256) as u8;
            }
            "mut:handshake-sizes"
        }
        6 => {
            // corrupt / extend the record region
            if p.flag == codec_ref::FLAG_HANDSHAKE {
                match rng.below(3) {
                    0 => {
                        let n = 1 + rng.usize(8);
                        p.authdata.extend_from_slice(&rng.bytes(n))
                    }
                    1 => {
                        let n = p.authdata.len();
                        if n > 40 {
                            let i = n - 1 - rng.usize(30.min(n - 35));
                            p.authdata[i] ^= 1 << rng.below(8);
                        }
                    }
                    _ => {
                        let n = p.authdata.len();
                        p.authdata.truncate(n - rng.usize(20.min(n)));
                    }
                }
            }
            "mut:record"
        }
        7 => "mut:truncate",
        _ => "mut:append",
    };
    let mut bytes = p.encode(&dst);
    if origin == "mut:truncate" {
        let n = rng.usize(bytes.len() + 1);
        bytes.truncate(n);
    } else if origin == "mut:append" {
        let extra = 1 + rng.usize(1400usize.saturating_sub(bytes.len()).max(1));
        bytes.extend_from_slice(&rng.bytes(extra));
    }
    differential(rep, &dst, &bytes, origin, false);
}

fn exhaustive(rep: &mut Report, rng: &mut Rng, pool: &[Enr]) {
    // all lengths 0..=1400 of random bytes
    for len in 0..=1400usize {
        let local: [u8; 32] = rng.array();
        let data = rng.bytes(len);
        differential(rep, &local, &data, "random-bytes-all-lengths", false);
    }
    // all truncation points of 30 sample datagrams
    for _ in 0..30 {
        let p = gen_wellformed(rng, pool, false);
        let dst: [u8; 32] = rng.array();
        let bytes = p.encode(&dst);
        for n in 0..bytes.len() {
            differential(rep, &dst, &bytes[..n], "all-truncations", false);
        }
    }
    // all 256 flag bytes and all authdata sizes 0..2047 on templates of each kind
    let mut templates = Vec::new();
    while templates.len() < 3 {
        let p = gen_wellformed(rng, pool, false);
        if templates.iter().all(|t: &RawPacket| t.flag != p.flag) {
            templates.push(p);
        }
    }
    for t in &templates {
        let dst: [u8; 32] = rng.array();
        for flag in 0..=255u8 {
            let mut p = t.clone();
            p.flag = flag;
            differential(rep, &dst, &p.encode(&dst), "all-flags", false);
        }
        for size in (0..2048u16).chain(65000..=65535u16) {
            let mut p = t.clone();
            p.authdata_size_override = Some(size);
            differential(rep, &dst, &p.encode(&dst), "all-authsizes", false);
        }
    }
    rep.extra.insert("exhaustive_subspaces".into(), json!(["random bytes of every length 0..1400", "every truncation point of 30 datagrams", "all 256 flag bytes on 3 templates", "all authdata-size values 0..2047 and 65000..65535 on 3 templates"]));
}

/// A node configured with its own protocol id / version (the real receive path: socket task,
/// `Packet::decode`, handler) accepts datagrams of that identity only and emits that identity.
/// The receive path of the socket layer: datagrams of every permitted size, the largest ones above
/// all, reach `Packet::decode` unharmed (wire rig: the real RecvHandler fed from the virtual socket).
/// Only sizes up to 1280 are judged here: a UDP read into the 1280-byte buffer cuts a longer
/// datagram, and what is left may well be a valid packet.
pub fn scenario_recv_sizes(seed: u64, rep: &mut Report) {
    use crate::rig::r1::{runtime, v4, RigConfig, WireRig};
    use discv5::verif::HandlerOut;
    let rt = runtime(seed);
    rt.block_on(async {
        let mut rng = Rng::new(seed ^ 0x512E);
        let rig = WireRig::start(&mut rng, RigConfig::default()).await;
        let vid = rig.victim_id();
        rep.evaluations += 1;
        rep.count("recv_size_scenarios");
        let mut lens: Vec<usize> = vec![1280, 1279, 72 + rng.usize(1200)];
        lens.push(*rng.pick(&[1278usize, 1277, 1024, 1025, 512, 72, 73, 100]));
        for (k, len) in lens.iter().enumerate() {
            let src: [u8; 32] = rng.array();
            let from = v4(10, 3, 5, 1 + k as u8, 9300 + k as u16);
            let body = rng.bytes(len - 71);
            let p = RawPacket::new(rng.array(), codec_ref::FLAG_MESSAGE, rng.array(), codec_ref::authdata_message(&src), body);
            let datagram = p.encode(&vid);
            assert_eq!(datagram.len(), *len);
            if codec_ref::decode(&vid, &datagram).is_err() {
                continue;
            }
            rig.inject(from, datagram.clone());
            rig.settle().await;
            let evs = rig.take_events();
            let _ = rig.take_sent();
            rep.count("recv_size_datagrams");
            rep.fingerprint(&("recv-size", len / 8));
            // a readable message packet of an unknown sender makes the handler ask who that is
            let asked = evs.iter().any(|e| matches!(&e.v, HandlerOut::WhoAreYou(w) if w.0.node_id.raw() == src));
            if !asked {
                rep.violation("C05:receive-path-drops-valid-datagram", format!("a valid message datagram of {len} bytes was not decoded on the receive path"), json!({"scenario_seed": seed.to_string(), "kind": "recv-sizes", "len": len, "datagram": hx(&datagram)}));
            }
        }
    });
}

pub fn scenario_identity(seed: u64, rep: &mut Report) {
    use crate::peer::peersim::signing_key;
    use crate::rig::r1::{runtime, v4, RigConfig, WireRig};
    use discv5::verif::{HandlerIn, HandlerOut, Request, RequestBody};
    let rt = runtime(seed);
    rt.block_on(async {
        let mut rng = Rng::new(seed ^ 0x1DE);
        let own_id: [u8; 6] = if rng.bool() { *b"custom" } else { rng.array() };
        let own_ver: [u8; 2] = if rng.bool() { [0, 1] } else { [rng.below(256) as u8, rng.below(256) as u8] };
        if own_id == codec_ref::PROTOCOL_ID && own_ver == [0, 1] {
            return;
        }
        let cfg = RigConfig { protocol_identity: Some(discv5::ProtocolIdentity { protocol_id: own_id, protocol_version: own_ver }), ..Default::default() };
        let rig = WireRig::start(&mut rng, cfg).await;
        let vid = rig.victim_id();
        rep.evaluations += 1;
        rep.count("identity_scenarios");
        // inbound: the same kind of datagram under four identities
        let mut other_ver = own_ver;
        other_ver[1] ^= 1 << rng.below(8);
        let mut other_id = own_id;
        other_id[rng.usize(6)] ^= 1 << rng.below(8);
        let cases: Vec<(&str, [u8; 6], [u8; 2], bool)> = vec![
            ("own identity", own_id, own_ver, true),
            ("standard identity", codec_ref::PROTOCOL_ID, [0, 1], false),
            ("own id, other version", own_id, other_ver, false),
            ("other id, own version", other_id, own_ver, false),
        ];
        for (k, (name, pid, ver, accept)) in cases.iter().enumerate() {
            let src: [u8; 32] = rng.array();
            let from = v4(10, 3, 3, 1 + k as u8, 9100 + k as u16);
            let n = 20 + rng.usize(40);
            let mut p = RawPacket::new(rng.array(), codec_ref::FLAG_MESSAGE, rng.array(), codec_ref::authdata_message(&src), rng.bytes(n));
            p.protocol_id = *pid;
            p.version = *ver;
            rig.inject(from, p.encode(&vid));
            rig.settle().await;
            let evs = rig.take_events();
            let sent = rig.take_sent();
            // a readable message packet of an unknown sender makes the handler ask who that is
            let asked = evs.iter().any(|e| matches!(&e.v, HandlerOut::WhoAreYou(_)));
            if asked != *accept {
                rep.violation(if *accept { "C05:rejects-own-identity" } else { "C05:accepts-foreign-identity" }, format!("node configured with protocol id {} version {}: a datagram carrying {name} was {}", hx(&own_id), hx(&own_ver), if asked { "accepted" } else { "rejected" }), json!({"scenario_seed": seed.to_string(), "kind": "identity", "case": name}));
            }
            if !*accept && !sent.is_empty() {
                rep.violation("C05:accepts-foreign-identity", format!("a datagram carrying {name} made the node send something"), json!({"scenario_seed": seed.to_string(), "kind": "identity", "case": name}));
            }
            rep.count("identity_datagrams");
        }
        // outbound: what the node emits carries its own identity
        let sk = signing_key(&mut rng);
        let peer_addr = v4(10, 3, 4, 1, 9200);
        let contact = discv5::NodeContact::new(discv5::enr::CombinedPublicKey::Secp256k1(*sk.verifying_key()), peer_addr, None);
        let peer_id: [u8; 32] = contact.node_id().raw();
        rig.submit(HandlerIn::Request(contact, Box::new(Request { id: discv5::RequestId(vec![1]), body: RequestBody::Ping { enr_seq: 1 } })));
        rig.settle().await;
        for s in rig.take_sent() {
            let (_, bytes) = s.v;
            if bytes.len() < 39 {
                continue;
            }
            let mut iv = [0u8; 16];
            iv.copy_from_slice(&bytes[..16]);
            let mut head = bytes[16..39].to_vec();
            codec_ref::mask(&peer_id, &iv, &mut head);
            rep.count("identity_emitted_datagrams");
            if head[..6] != own_id || head[6..8] != own_ver {
                rep.violation("C05:emits-foreign-identity", format!("node configured with protocol id {} version {} emitted a datagram carrying {} / {}", hx(&own_id), hx(&own_ver), hx(&head[..6]), hx(&head[6..8])), json!({"scenario_seed": seed.to_string(), "kind": "identity"}));
            }
        }
        rep.fingerprint(&("identity", own_id == *b"custom", own_ver == [0, 1]));
    });
}

pub fn run(p: &Params) -> Report {
    let mut rep = Report::new("C05");
    crate::util::quiet_panics_inside_probes();
    let mut rng = Rng::new(p.shard_seed(5));
    let pool = record_pool(&mut rng, 24);
    if let Some(r) = &p.replay {
        let local: [u8; 32] = hex::decode(r["replay"]["local_id"].as_str().unwrap_or("")).ok().and_then(|v| v.try_into().ok()).unwrap_or([0; 32]);
        let data = hex::decode(r["replay"]["datagram"].as_str().unwrap_or("")).unwrap_or_default();
        if r["replay"]["kind"] == "identity" {
            let seed: u64 = r["replay"]["scenario_seed"].as_str().unwrap().parse().unwrap();
            scenario_identity(seed, &mut rep);
            return rep;
        }
        if r["replay"]["kind"] == "recv-sizes" {
            let seed: u64 = r["replay"]["scenario_seed"].as_str().unwrap().parse().unwrap();
            scenario_recv_sizes(seed, &mut rep);
            return rep;
        }
        differential(&mut rep, &local, &data, "replay", false);
        return rep;
    }
    // the configured identity on the real receive and send paths
    let idn = p.budget(480, 24_000);
    for i in 0..idn {
        let seed = p.shard_seed(0x1D_0000 + i);
        crate::util::guarded(&mut rep, seed, |rep| scenario_identity(seed, rep));
        let seed = p.shard_seed(0x512_0000 + i);
        crate::util::guarded(&mut rep, seed, |rep| scenario_recv_sizes(seed, rep));
    }
    if p.shard == 0 {
        exhaustive(&mut rep, &mut rng, &pool);
    }
    let n = p.budget(400_000, 24_000_000);
    for i in 0..n {
        match i % 4 {
            0 => check_wellformed(&mut rep, &mut rng, &pool),
            1 => {
                let local: [u8; 32] = rng.array();
                let len = rng.usize(1401);
                let data = rng.bytes(len);
                differential(&mut rep, &local, &data, "random-bytes", false);
            }
            _ => check_mutation(&mut rep, &mut rng, &pool),
        }
    }
    rep
}
