//! C02 — delivered messages are authentic and untampered.
//!
//! An honest spec-side peer P and the victim exchange traffic in three session states (fresh,
//! re-keyed with old keys still held, awaiting record). For a genuine datagram G of P (message
//! packet carrying a request, message packet carrying a response to an outstanding request,
//! handshake packet with embedded request) the injector delivers exactly one mutant of G, waits
//! for the quiescent point and looks at what the handler delivered. Exactly one datagram is in
//! flight between quiescent points, so every delivery is attributable.
//!
//! Oracle: a mutant that is not byte-identical to a genuine datagram must cause no
//! `Request`/`Response` delivery (a handshake whose authentication part is intact may still be
//! *authenticated* - that is C01/C03's subject - but its tampered message must not be delivered);
//! a genuine datagram is
//! delivered with exactly P's plaintext and the attribution (P's id, P's address).

use crate::peer::codec_ref::{self, RefKind};
use crate::peer::peersim::{EnrAddr, Id, KeyGen, PeerSim};
use crate::peer::rlp_ref::RefMessage;
use crate::rig::r1::{runtime, v4, RigConfig, WireRig};
use crate::util::{hx, Params, Report, Rng};
use discv5::verif::{HandlerIn, HandlerOut, Request, RequestBody, ResponseBody};
use discv5::{NodeContact, RequestId};
use serde_json::{json, Value};
use std::net::SocketAddr;

#[derive(Clone, Copy, Debug, PartialEq, Eq, Hash)]
pub enum State {
    Fresh,
    Rekeyed,
    AwaitingRecord,
}

#[derive(Clone, Copy, Debug, PartialEq, Eq, Hash)]
pub enum Kind {
    Request,
    Response,
    Handshake,
}

struct Lab {
    rig: WireRig,
    /// second victim (for redirects), with its own session to P
    rig2: WireRig,
    p: PeerSim,
    q: PeerSim,
    rng: Rng,
    next: u64,
    log: Vec<Value>,
}

impl Lab {
    fn note(&mut self, s: String) {
        if self.log.len() > 60 {
            self.log.remove(0);
        }
        self.log.push(json!(s));
    }

    /// Answers every pending who-are-you query with "unknown" and returns the other events.
    async fn settle(&mut self, second: bool) -> Vec<HandlerOut> {
        let mut out = Vec::new();
        for _ in 0..4 {
            let rig = if second { &self.rig2 } else { &self.rig };
            rig.settle().await;
            let evs = rig.take_events();
            if evs.is_empty() {
                break;
            }
            for e in evs {
                match e.v {
                    HandlerOut::WhoAreYou(w) => rig.submit(HandlerIn::WhoAreYou(w, None)),
                    other => out.push(other),
                }
            }
        }
        out
    }

    /// Peer-initiated handshake of `peer` (0 = P, 1 = Q) with the victim (or the second victim).
    async fn establish(&mut self, peer: usize, second: bool) -> bool {
        let (vid, vpub) = {
            let r = if second { &self.rig2 } else { &self.rig };
            (r.victim_id(), r.victim.public())
        };
        let sim = if peer == 0 { &mut self.p } else { &mut self.q };
        let addr = sim.addr();
        let (d, nonce) = sim.random_packet(&vid);
        {
            let rig = if second { &self.rig2 } else { &self.rig };
            rig.take_sent();
            rig.inject(addr, d);
        }
        let _ = self.settle(second).await;
        let sent = if second { self.rig2.take_sent() } else { self.rig.take_sent() };
        let sim = if peer == 0 { &mut self.p } else { &mut self.q };
        let Some(w) = sent.iter().find_map(|s| match sim.parse(&s.v.1) {
            Ok(d) if matches!(d.kind, RefKind::WhoAreYou { .. }) && d.nonce == nonce => Some(d),
            _ => None,
        }) else {
            return false;
        };
        self.next += 1;
        let ping = RefMessage::Ping { id: vec![0xE5, self.next as u8], enr_seq: 1 };
        let hs = sim.honest_handshake(&vid, &vpub, &w.aad, true, &ping);
        {
            let rig = if second { &self.rig2 } else { &self.rig };
            rig.inject(addr, hs.datagram);
        }
        let evs = self.settle(second).await;
        evs.iter().any(|e| matches!(e, HandlerOut::Established(..)))
    }

    /// Victim-initiated contact of P without record; P completes the handshake but never answers
    /// the ENR request: the session stays in the "awaiting record" state.
    async fn establish_awaiting_record(&mut self) -> bool {
        let vid = self.rig.victim_id();
        let vpub = self.rig.victim.public();
        let contact = NodeContact::new(discv5::enr::CombinedPublicKey::Secp256k1(self.p.ident.public()), self.p.addr(), None);
        self.next += 1;
        self.rig.take_sent();
        self.rig.submit(HandlerIn::Request(contact, Box::new(Request { id: RequestId(vec![0xA7, self.next as u8]), body: RequestBody::Ping { enr_seq: 1 } })));
        let _ = self.settle(false).await;
        let sent = self.rig.take_sent();
        let Some(r) = sent.iter().find_map(|s| self.p.parse(&s.v.1).ok()) else { return false };
        let w = self.p.whoareyou(&vid, r.nonce, 0);
        self.rig.inject(self.p.addr(), w);
        let _ = self.settle(false).await;
        let sent = self.rig.take_sent();
        for s in sent {
            if let Ok(d) = self.p.parse(&s.v.1) {
                if matches!(d.kind, RefKind::Handshake { .. }) && self.p.accept_handshake(&vid, &vpub, &d).is_ok() {
                    return true;
                }
            }
        }
        false
    }

    fn keys(&self) -> Option<KeyGen> {
        self.p.latest(&self.rig.victim_id()).cloned()
    }
}

/// Region boundaries of a datagram: (iv, static header, authdata, ciphertext, tag).
fn regions(len: usize, auth: usize) -> [(usize, usize); 5] {
    let a = 39 + auth;
    let tag = len.saturating_sub(16).max(a);
    [(0, 16), (16, 39), (39, a), (a, tag), (tag, len)]
}

#[derive(Clone, Debug)]
enum Mutation {
    BitFlip(usize),
    Truncate(usize),
    Insert(usize, Vec<u8>),
    Append(Vec<u8>),
    SpliceBody,
    SpliceOldGeneration,
    SpliceOtherPeer,
    OtherSource(SocketAddr),
    RedirectAsIs,
    RedirectRemasked,
    /// Header unmasked (the mask key is the public destination id), authdata extended by these
    /// bytes with the size field adjusted, header masked again; body untouched.
    AuthdataExtend(Vec<u8>),
    /// Likewise, the last n bytes of the authdata removed.
    AuthdataShrink(usize),
    Identity,
}

impl Mutation {
    fn class(&self, len: usize, auth: usize) -> String {
        match self {
            Mutation::BitFlip(bit) => {
                let byte = bit / 8;
                let r = regions(len, auth);
                let names = ["iv", "static-header", "authdata", "ciphertext", "tag"];
                let i = r.iter().position(|(s, e)| byte >= *s && byte < *e).unwrap_or(3);
                format!("bitflip:{}", names[i])
            }
            Mutation::Truncate(_) => "truncate".into(),
            Mutation::Insert(..) => "insert".into(),
            Mutation::Append(_) => "append".into(),
            Mutation::SpliceBody => "splice:header-of-one-body-of-other".into(),
            Mutation::SpliceOldGeneration => "splice:across-key-generations".into(),
            Mutation::SpliceOtherPeer => "splice:across-peers".into(),
            Mutation::OtherSource(_) => "other-source-address".into(),
            Mutation::RedirectAsIs => "redirect:as-is-to-other-node".into(),
            Mutation::RedirectRemasked => "redirect:remasked-for-other-node".into(),
            Mutation::AuthdataExtend(_) => "authdata:extended-and-remasked".into(),
            Mutation::AuthdataShrink(_) => "authdata:shortened-and-remasked".into(),
            Mutation::Identity => "identity".into(),
        }
    }
}

/// Rebuilds a datagram with an edited authdata: unmask, edit, fix the size field, mask again.
fn edit_authdata(bytes: &[u8], dst: &Id, edit: impl FnOnce(&mut Vec<u8>)) -> Option<Vec<u8>> {
    let dec = codec_ref::decode(dst, bytes).ok()?;
    let flag = dec.aad[16 + 8];
    let mut authdata = dec.aad[39..].to_vec();
    edit(&mut authdata);
    Some(codec_ref::RawPacket::new(dec.iv, flag, dec.nonce, authdata, dec.message.clone()).encode(dst))
}

fn remask(bytes: &[u8], from: &Id, to: &Id) -> Vec<u8> {
    let mut iv = [0u8; 16];
    iv.copy_from_slice(&bytes[..16]);
    let mut rest = bytes[16..].to_vec();
    // unmask the whole tail with the old key, find the header length, re-mask only the header
    let mut un = rest.clone();
    codec_ref::mask(from, &iv, &mut un);
    let auth = u16::from_be_bytes([un[21], un[22]]) as usize;
    let hlen = (23 + auth).min(un.len());
    let mut header = un[..hlen].to_vec();
    codec_ref::mask(to, &iv, &mut header);
    rest[..hlen].copy_from_slice(&header);
    let mut out = iv.to_vec();
    out.extend_from_slice(&rest);
    out
}

pub fn scenario(seed: u64, exhaustive_bits: bool, trials: usize, rep: &mut Report) {
    let rt = runtime(seed);
    rt.block_on(async {
        let mut rng = Rng::new(seed ^ 0xC02);
        let state = *rng.pick(&[State::Fresh, State::Rekeyed, State::AwaitingRecord]);
        let kind = *rng.pick(&[Kind::Request, Kind::Request, Kind::Response, Kind::Handshake]);
        let rig = WireRig::start(&mut rng, RigConfig::default()).await;
        let rig2 = WireRig::start(&mut rng, RigConfig::default()).await;
        let pa = v4(10, 0, 2, 2, 9000);
        let qa = v4(10, 0, 2, 3, 9000);
        let p = PeerSim::new(&mut rng, pa, EnrAddr::Socket(pa), 2);
        let q = PeerSim::new(&mut rng, qa, EnrAddr::Socket(qa), 2);
        let mut lab = Lab { rig, rig2, p, q, rng: rng.fork(9), next: 0, log: vec![] };
        let vid = lab.rig.victim_id();
        let v2id = lab.rig2.victim_id();
        let pid = lab.p.id();

        // ---- bring the sessions into the wanted state ----
        let ok = match state {
            State::Fresh => lab.establish(0, false).await,
            State::Rekeyed => lab.establish(0, false).await && lab.establish(0, false).await,
            State::AwaitingRecord => lab.establish_awaiting_record().await,
        };
        let ok = ok && lab.establish(1, false).await && lab.establish(0, true).await;
        if !ok {
            rep.inconclusive(format!("could not set up sessions (seed {seed}, state {state:?})"));
            return;
        }
        // the key generations P shares with the first victim (the second victim's come last)
        let gens_v1: Vec<KeyGen> = lab.p.keys.get(&vid).cloned().unwrap_or_default();

        let mut bit_cursor = 0usize;
        for trial in 0..trials {
            rep.evaluations += 1;
            // ---- preconditions + the genuine datagram G and its plaintext ----
            if lab.keys().is_none() {
                break;
            }
            lab.next += 1;
            let tag = (lab.next & 0xff) as u8;
            let (genuine, plain): (Vec<u8>, RefMessage) = match kind {
                Kind::Request => {
                    let m = match lab.rng.below(3) {
                        0 => RefMessage::Ping { id: vec![0xD0, tag], enr_seq: 3 },
                        1 => RefMessage::TalkReq { id: vec![0xD1, tag], protocol: b"p".to_vec(), request: lab.rng.bytes(20) },
                        _ => RefMessage::FindNode { id: vec![0xD2, tag], distances: vec![1, 2, 256] },
                    };
                    (lab.p.message(&vid, &m, None).0, m)
                }
                Kind::Response => {
                    // the victim has a request outstanding; P builds the genuine answer
                    let id = vec![0xA2, tag, (lab.next >> 8) as u8];
                    let body = match lab.rng.below(3) {
                        0 => RequestBody::Ping { enr_seq: 1 },
                        1 => RequestBody::Talk { protocol: b"p".to_vec(), request: vec![1] },
                        _ => RequestBody::FindNode { distances: vec![0] },
                    };
                    let m = match &body {
                        RequestBody::Ping { .. } => RefMessage::Pong { id: id.clone(), enr_seq: 2, ip: vec![10, 0, 0, 1], port: 9000 },
                        RequestBody::Talk { .. } => RefMessage::TalkResp { id: id.clone(), response: vec![7, 7] },
                        RequestBody::FindNode { .. } => RefMessage::Nodes { id: id.clone(), total: 1, records: vec![lab.p.ident.record_bytes()] },
                    };
                    let contact = NodeContact::try_from_enr(lab.p.ident.enr.clone(), discv5::IpMode::Ip4).unwrap();
                    lab.rig.submit(HandlerIn::Request(contact, Box::new(Request { id: RequestId(id), body })));
                    let _ = lab.settle(false).await;
                    lab.rig.take_sent();
                    (lab.p.message(&vid, &m, None).0, m)
                }
                Kind::Handshake => {
                    // an outstanding challenge of the victim for P, answered by a genuine handshake
                    let (d, nonce) = lab.p.random_packet(&vid);
                    lab.rig.take_sent();
                    lab.rig.inject(pa, d);
                    let _ = lab.settle(false).await;
                    let sent = lab.rig.take_sent();
                    let Some(w) = sent.iter().find_map(|s| match lab.p.parse(&s.v.1) {
                        Ok(d) if matches!(d.kind, RefKind::WhoAreYou { .. }) && d.nonce == nonce => Some(d),
                        _ => None,
                    }) else {
                        // a challenge is still outstanding from the previous trial: wait it out
                        lab.rig.sleep(std::time::Duration::from_millis(1100)).await;
                        let _ = lab.settle(false).await;
                        continue;
                    };
                    let m = RefMessage::Ping { id: vec![0xD3, tag], enr_seq: 3 };
                    let vpub = lab.rig.victim.public();
                    let hs = lab.p.honest_handshake(&vid, &vpub, &w.aad, true, &m);
                    (hs.datagram, m)
                }
            };
            let auth = match codec_ref::decode(&vid, &genuine) {
                Ok(d) => d.aad.len() - 39,
                Err(_) => 32,
            };
            // ---- choose the mutation ----
            let nbits = genuine.len() * 8;
            let mutation = if exhaustive_bits {
                if bit_cursor >= nbits {
                    break;
                }
                bit_cursor += 1;
                Mutation::BitFlip(bit_cursor - 1)
            } else {
                match lab.rng.below(27) {
                    0..=9 => {
                        // stratified over the five regions
                        let r = regions(genuine.len(), auth);
                        let (s, e) = r[lab.rng.usize(5)];
                        let byte = if e > s { s + lab.rng.usize(e - s) } else { lab.rng.usize(genuine.len()) };
                        Mutation::BitFlip(byte * 8 + lab.rng.usize(8))
                    }
                    10..=12 => Mutation::Truncate(lab.rng.usize(genuine.len())),
                    13 => {
                        let n = 1 + lab.rng.usize(4);
                        Mutation::Insert(lab.rng.usize(genuine.len()), lab.rng.bytes(n))
                    }
                    14 => {
                        let n = 1 + lab.rng.usize(16);
                        Mutation::Append(lab.rng.bytes(n))
                    }
                    15 | 16 => Mutation::SpliceBody,
                    17 => Mutation::SpliceOldGeneration,
                    18 => Mutation::SpliceOtherPeer,
                    19 => Mutation::OtherSource(match lab.rng.below(3) {
                        0 => qa,
                        // same IP, another port
                        1 => SocketAddr::new(pa.ip(), 9001 + lab.rng.below(1000) as u16),
                        _ => v4(10, 77, 0, 1 + lab.rng.below(200) as u8, 5000),
                    }),
                    20 => Mutation::RedirectAsIs,
                    21 => Mutation::RedirectRemasked,
                    22 | 23 => {
                        let n = 1 + lab.rng.usize(32);
                        Mutation::AuthdataExtend(lab.rng.bytes(n))
                    }
                    24 => Mutation::AuthdataShrink(1 + lab.rng.usize(4)),
                    _ => Mutation::Identity,
                }
            };
            // ---- build the mutant ----
            let mut source = pa;
            let mut to_second = false;
            let mutant: Vec<u8> = match &mutation {
                Mutation::BitFlip(bit) => {
                    let mut b = genuine.clone();
                    b[bit / 8] ^= 1 << (bit % 8);
                    b
                }
                Mutation::Truncate(n) => genuine[..*n].to_vec(),
                Mutation::Insert(pos, bytes) => {
                    let mut b = genuine[..*pos].to_vec();
                    b.extend_from_slice(bytes);
                    b.extend_from_slice(&genuine[*pos..]);
                    b
                }
                Mutation::Append(bytes) => {
                    let mut b = genuine.clone();
                    b.extend_from_slice(bytes);
                    b
                }
                Mutation::SpliceBody => {
                    // header (iv, masked header) of G with the body of another genuine message
                    let other = RefMessage::TalkReq { id: vec![0xD4, tag], protocol: b"x".to_vec(), request: vec![9; 8] };
                    let (g2, _) = lab.p.message(&vid, &other, None);
                    let h = 39 + auth;
                    let mut b = genuine[..h.min(genuine.len())].to_vec();
                    b.extend_from_slice(&g2[71.min(g2.len())..]);
                    b
                }
                Mutation::SpliceOldGeneration => {
                    // body encrypted under an older key generation behind the current header
                    if gens_v1.len() >= 2 {
                        let other = RefMessage::Ping { id: vec![0xD5, tag], enr_seq: 9 };
                        let (g2, _) = lab.p.message(&vid, &other, Some(0));
                        let h = 39 + auth;
                        let mut b = genuine[..h.min(genuine.len())].to_vec();
                        b.extend_from_slice(&g2[71.min(g2.len())..]);
                        b
                    } else {
                        let mut b = genuine.clone();
                        let n = b.len();
                        b[n - 1] ^= 0x80;
                        b
                    }
                }
                Mutation::SpliceOtherPeer => {
                    let other = RefMessage::Ping { id: vec![0xD6, tag], enr_seq: 9 };
                    let (g2, _) = lab.q.message(&vid, &other, None);
                    let h = 39 + auth;
                    let mut b = genuine[..h.min(genuine.len())].to_vec();
                    b.extend_from_slice(&g2[71.min(g2.len())..]);
                    b
                }
                Mutation::OtherSource(a) => {
                    source = *a;
                    genuine.clone()
                }
                Mutation::RedirectAsIs => {
                    to_second = true;
                    genuine.clone()
                }
                Mutation::RedirectRemasked => {
                    to_second = true;
                    remask(&genuine, &vid, &v2id)
                }
                Mutation::AuthdataExtend(extra) => match edit_authdata(&genuine, &vid, |a| a.extend_from_slice(extra)) {
                    Some(b) if b.len() <= 1280 => b,
                    _ => continue,
                },
                Mutation::AuthdataShrink(n) => match edit_authdata(&genuine, &vid, |a| {
                    let keep = a.len().saturating_sub(*n);
                    a.truncate(keep)
                }) {
                    Some(b) => b,
                    None => continue,
                },
                Mutation::Identity => genuine.clone(),
            };
            let class = mutation.class(genuine.len(), auth);
            rep.count(&format!("mutation:{class}"));
            let identical = mutant == genuine && source == pa && !to_second;
            // ---- inject, quiescent point, observe ----
            if to_second {
                lab.rig2.inject(source, mutant.clone());
            } else {
                lab.rig.inject(source, mutant.clone());
            }
            let evs = lab.settle(to_second).await;
            let delivered: Vec<String> = evs
                .iter()
                .filter_map(|e| match e {
                    HandlerOut::Request(na, r) => Some(format!("Request from {}@{} id {}", hx(&na.node_id.raw()[..4]), na.socket_addr, hx(&r.id.0))),
                    HandlerOut::Response(na, r) => Some(format!("Response from {}@{} id {}", hx(&na.node_id.raw()[..4]), na.socket_addr, hx(&r.id.0))),
                    _ => None,
                })
                .collect();
            lab.note(format!("trial {trial}: {kind:?} / {class} from {source} -> {delivered:?}"));
            let witness = |what: &str, lab: &Lab| json!({"scenario_seed": seed.to_string(), "what": what, "state": format!("{state:?}"), "datagram_kind": format!("{kind:?}"), "mutation": format!("{mutation:?}"), "mutation_class": class, "genuine": hx(&genuine), "mutant": hx(&mutant), "source": source.to_string(), "delivered": delivered, "history": lab.log});
            rep.fingerprint(&(state, kind, class.clone()));
            if !identical {
                rep.count("mutants_injected");
                if !delivered.is_empty() {
                    rep.violation(&format!("C02:mutant-delivered:{class}"), format!("a {class} mutant of a genuine {kind:?} datagram (state {state:?}) caused a delivery: {delivered:?}"), witness("mutant delivered", &lab));
                }
            } else {
                rep.count("genuine_injected");
                // exact content and attribution
                let good = evs.iter().any(|e| match (e, &plain) {
                    (HandlerOut::Request(na, r), m) if m.is_request() => na.node_id.raw() == pid && na.socket_addr == pa && r.id.0 == m.id() && same_request(&r.body, m),
                    (HandlerOut::Response(na, r), m) if !m.is_request() => na.node_id.raw() == pid && na.socket_addr == pa && r.id.0 == m.id() && same_response(&r.body, m),
                    _ => false,
                });
                let wrong = evs.iter().any(|e| matches!(e, HandlerOut::Request(..) | HandlerOut::Response(..))) && !good;
                if wrong {
                    rep.violation("C02:content-or-attribution-mismatch", format!("a genuine {kind:?} datagram was delivered with different content or attribution: {delivered:?}"), witness("content", &lab));
                } else if good {
                    rep.count("genuine_delivered_exactly");
                } else {
                    rep.count("genuine_not_delivered");
                }
            }
            // ---- repair the preconditions for the next trial ----
            if kind == Kind::Response || (kind == Kind::Handshake && !identical) {
                // let the outstanding request / challenge of this trial end with the genuine datagram
                lab.rig.inject(pa, genuine.clone());
                let _ = lab.settle(false).await;
            }
            // the victim may have dropped its session after an undecryptable packet
            let probe = RefMessage::Ping { id: vec![0xDF, tag], enr_seq: 1 };
            let (pb, _) = lab.p.message(&vid, &probe, None);
            lab.rig.take_sent();
            lab.rig.inject(pa, pb);
            let evs = lab.settle(false).await;
            let alive = evs.iter().any(|e| matches!(e, HandlerOut::Request(_, r) if r.id.0 == vec![0xDF, tag]));
            if !alive {
                // wait for any outstanding challenge to expire, then re-establish in the wanted state
                lab.rig.sleep(std::time::Duration::from_millis(1100)).await;
                let _ = lab.settle(false).await;
                lab.p.keys.remove(&vid);
                let ok = match state {
                    State::Fresh => lab.establish(0, false).await,
                    State::Rekeyed => lab.establish(0, false).await && lab.establish(0, false).await,
                    State::AwaitingRecord => lab.establish_awaiting_record().await,
                };
                rep.count("session_reestablished");
                if !ok {
                    rep.count("reestablish_failed");
                    break;
                }
            }
            if to_second {
                // keep the second victim's session with P usable
                lab.rig2.take_sent();
            }
        }
        if rep.want_sample() {
            rep.sample(json!({"scenario_seed": seed.to_string(), "state": format!("{state:?}"), "datagram_kind": format!("{kind:?}"), "history": lab.log.iter().take(10).cloned().collect::<Vec<_>>()}));
        }
    });
}

fn same_request(b: &RequestBody, m: &RefMessage) -> bool {
    match (b, m) {
        (RequestBody::Ping { enr_seq }, RefMessage::Ping { enr_seq: s, .. }) => enr_seq == s,
        (RequestBody::FindNode { distances }, RefMessage::FindNode { distances: d, .. }) => distances == d,
        (RequestBody::Talk { protocol, request }, RefMessage::TalkReq { protocol: p, request: r, .. }) => protocol == p && request == r,
        _ => false,
    }
}

fn same_response(b: &ResponseBody, m: &RefMessage) -> bool {
    match (b, m) {
        (ResponseBody::Pong { enr_seq, ip, port }, RefMessage::Pong { enr_seq: s, ip: i, port: p, .. }) => enr_seq == s && &crate::peer::rlp_ref::ip_bytes(ip) == i && port.get() == *p,
        (ResponseBody::Talk { response }, RefMessage::TalkResp { response: r, .. }) => response == r,
        (ResponseBody::Nodes { total, nodes }, RefMessage::Nodes { total: t, records, .. }) => total == t && nodes.iter().map(crate::peer::rlp_ref::encode_record).collect::<Vec<_>>() == *records,
        _ => false,
    }
}

pub fn run(p: &Params) -> Report {
    let mut rep = Report::new("C02");
    if let Some(r) = &p.replay {
        if super::sys::replay(r, &mut rep) {
            return rep;
        }
    }
    if let Some(r) = &p.replay {
        let seed: u64 = r["replay"]["scenario_seed"].as_str().unwrap().parse().unwrap();
        if r["replay"]["kind"] == "forged" {
            scenario_forged(seed, &mut rep);
        } else if r["replay"]["kind"] == "degenerate-keys" {
            scenario_degenerate_keys(seed, &mut rep);
        } else {
            scenario(seed, false, 40, &mut rep);
        }
        return rep;
    }
    // sampled mutations
    let n = p.budget(4_800, 160_000);
    for i in 0..n {
        let seed = p.shard_seed(0x02_0000 + i);
        crate::util::guarded(&mut rep, seed, |rep| scenario(seed, false, 24, rep));
    }
    let f = p.budget(1_600, 60_000);
    for i in 0..f {
        let seed = p.shard_seed(0xF2_0000 + i);
        crate::util::guarded(&mut rep, seed, |rep| scenario_forged(seed, rep));
        let seed = p.shard_seed(0x0D02_0000 + i);
        crate::util::guarded(&mut rep, seed, |rep| scenario_degenerate_keys(seed, rep));
    }
    // every single bit of a few datagrams per shard
    let m = p.budget(48, 960);
    for i in 0..m {
        let seed = p.shard_seed(0xB1_0000 + i);
        crate::util::guarded(&mut rep, seed, |rep| scenario(seed, true, 4000, rep));
    }
    // full stack: a network that tampers with and replays datagrams around an unmodified Discv5
    super::sys::run_mixed(p, super::sys::Focus::C02, 0x5C02_0000, 1600, 100_000, &mut rep);
    rep.extra.insert("exhaustive_subspaces".into(), json!(["every single-bit flip of the datagrams selected for the exhaustive pass (one datagram kind and session state per scenario)"]));
    rep
}

/// After any number of re-keyings of a session, a message from P's address under a key that no
/// handshake produced - all zero bytes, all ones, a prefix of either node id, an earlier key of
/// the victim's own direction - is never delivered.
pub fn scenario_degenerate_keys(seed: u64, rep: &mut Report) {
    use crate::rig::engine::{Engine, Ev, InClass};
    use crate::rig::r1::{runtime, RigConfig};
    let rt = runtime(seed);
    rt.block_on(async {
        let mut rng = Rng::new(seed ^ 0x0D02);
        let mut e = Engine::new(seed, RigConfig::default(), 1, None).await;
        e.wru_delays = vec![Some(std::time::Duration::ZERO)];
        e.app_knows_peers = rng.bool();
        let vid = e.victim_id;
        let rekeys = rng.usize(5);
        for k in 0..=rekeys {
            if k > 0 {
                e.peer_lose_session(0);
            }
            // the peer lost its keys: either it speaks first (its packet is unreadable, the node
            // drops the session and challenges it) or the node does (its request is challenged by
            // the peer and the existing session is re-keyed in place)
            if k == 0 || rng.chance(1, 3) {
                e.peer_request(0, *rng.pick(&[1u8, 5]));
                e.drain().await;
            }
            if k > 0 || rng.bool() {
                e.submit(0, 1, true);
                e.drain().await;
            }
        }
        if e.peers[0].sim.latest(&vid).is_none() {
            rep.count("degenerate_key_scenarios_without_session");
            return;
        }
        rep.evaluations += 1;
        rep.count("degenerate_key_scenarios");
        let pid = e.peers[0].sim.id();
        let addr = e.peers[0].sim.addr();
        let mut pid16 = [0u8; 16];
        pid16.copy_from_slice(&pid[..16]);
        let mut vid16 = [0u8; 16];
        vid16.copy_from_slice(&vid[..16]);
        // the key of the other direction of the current session (never valid for P's messages)
        let reverse = e.peers[0].sim.latest(&vid).map(|k| k.recv);
        let mut keys: Vec<(&str, [u8; 16])> = vec![("all zero", [0u8; 16]), ("all ones", [0xFF; 16]), ("prefix of P's node id", pid16), ("prefix of the local node id", vid16)];
        if let Some(r) = reverse {
            keys.push(("the session key of the opposite direction", r));
        }
        for (name, key) in keys {
            let probe_id = vec![0x0D, rng.below(256) as u8, rng.below(256) as u8];
            let m = RefMessage::TalkReq { id: probe_id.clone(), protocol: b"verif".to_vec(), request: b"never encrypted by P".to_vec() };
            let (b, _) = crate::peer::peersim::message_packet(&mut rng, &pid, &vid, &key, &m.encode());
            let mark = e.trace.len();
            e.inject_now(Some(0), addr, b, InClass::Crafted(format!("message under a degenerate key ({name})")));
            e.drain().await;
            rep.count("degenerate_key_probes");
            let delivered = e.trace[mark..].iter().any(|t| matches!(&t.ev, Ev::Out(HandlerOut::Request(_, r)) if r.id.0 == probe_id));
            if delivered {
                rep.violation("C02:forged-message-delivered", format!("after {rekeys} re-keyings a message under {name} was delivered as P's request"), json!({"scenario_seed": seed.to_string(), "kind": "degenerate-keys", "rekeys": rekeys, "key": name}));
            }
        }
        rep.fingerprint(&("degenerate-keys", rekeys));
    });
}

/// A message inside a handshake that was not made with P's key must never be delivered as P's:
/// the victim knows P's record; a third party M claims P's id, signs with its own key and
/// attaches its own record (seq above / equal / below the known one, or none).
pub fn scenario_forged(seed: u64, rep: &mut Report) {
    use crate::peer::peersim::{build_enr, handshake_packet, random_packet, signing_key, EphKey, HandshakeSpec, SignedData, Signer};
    let rt = runtime(seed);
    rt.block_on(async {
        let mut rng = Rng::new(seed ^ 0xF02);
        let rig = WireRig::start(&mut rng, RigConfig::default()).await;
        let pa = v4(10, 0, 2, 2, 9000);
        let p = PeerSim::new(&mut rng, pa, EnrAddr::Socket(pa), 5);
        let vid = rig.victim_id();
        let vpub = rig.victim.public();
        let m_sk = signing_key(&mut rng);
        let m_addr = v4(10, 0, 66, 6, 6666);
        let variant = rng.below(4);
        let record = match variant {
            0 => Some(build_enr(&m_sk, 45, EnrAddr::Socket(m_addr), None)),
            1 => Some(build_enr(&m_sk, 5, EnrAddr::Socket(m_addr), None)),
            2 => Some(build_enr(&m_sk, 1, EnrAddr::Socket(m_addr), None)),
            _ => None,
        };
        let (d1, n1) = random_packet(&mut rng, &p.id(), &vid);
        rig.inject(m_addr, d1);
        rig.settle().await;
        // the application knows P's record, or has never heard of P
        let known = rng.chance(2, 3);
        if !known {
            rep.count("forged_for_unknown_peer");
        }
        for e in rig.take_events() {
            if let HandlerOut::WhoAreYou(w) = e.v {
                rig.submit(HandlerIn::WhoAreYou(w, known.then(|| p.ident.enr.clone())));
            }
        }
        rig.settle().await;
        let challenge = rig.take_sent().iter().find_map(|s| match codec_ref::decode(&p.id(), &s.v.1) {
            Ok(d) if matches!(d.kind, RefKind::WhoAreYou { .. }) && d.nonce == n1 && s.v.0 == m_addr => Some(d.aad),
            _ => None,
        });
        rep.evaluations += 1;
        let Some(cd) = challenge else {
            rep.count("forged_no_challenge");
            return;
        };
        let ping = RefMessage::Ping { id: vec![0x66, 0x01], enr_seq: 1 };
        let spec = HandshakeSpec {
            claimed_id: p.id(),
            signer: Signer::Key(m_sk.clone()),
            signed: SignedData::Correct,
            eph: EphKey::Fresh,
            record: record.as_ref().map(crate::peer::rlp_ref::encode_record),
            dst: vid,
            dst_pub: &vpub,
            challenge_data: &cd,
            plaintext: &ping.encode(),
        };
        let mut r2 = rng.fork(3);
        let hs = handshake_packet(&mut r2, &spec);
        rig.inject(m_addr, hs.datagram.clone());
        rig.settle().await;
        rep.count("forged_handshakes_injected");
        let mut delivered = Vec::new();
        for e in rig.take_events() {
            match e.v {
                HandlerOut::Request(na, r) if na.node_id.raw() == p.id() => delivered.push(format!("Request from {}@{} id {}", hx(&na.node_id.raw()[..4]), na.socket_addr, hx(&r.id.0))),
                HandlerOut::Response(na, r) if na.node_id.raw() == p.id() => delivered.push(format!("Response from {}@{} id {}", hx(&na.node_id.raw()[..4]), na.socket_addr, hx(&r.id.0))),
                _ => {}
            }
        }
        // and a follow-up message under the forged keys
        if let Some(k) = &hs.keys {
            let (b, _) = crate::peer::peersim::message_packet(&mut rng, &p.id(), &vid, &k.send, &RefMessage::Ping { id: vec![0x66, 0x02], enr_seq: 1 }.encode());
            rig.inject(m_addr, b);
            rig.settle().await;
            for e in rig.take_events() {
                if let HandlerOut::Request(na, r) = e.v {
                    if na.node_id.raw() == p.id() {
                        delivered.push(format!("Request from {}@{} id {}", hx(&na.node_id.raw()[..4]), na.socket_addr, hx(&r.id.0)));
                    }
                }
            }
        }
        rep.fingerprint(&("forged", variant));
        if !delivered.is_empty() {
            rep.violation("C02:forged-message-delivered", format!("a message that P never encrypted was delivered as coming from P: {delivered:?}"), json!({"scenario_seed": seed.to_string(), "kind": "forged", "attached_record": variant, "handshake": hx(&hs.datagram)}));
        }
    });
}
