//! C17 — the external address is updated only by a clear majority.
//!
//! R2 rig. Voters are routing-table entries whose sessions the harness established (direction
//! chosen); PINGs are triggered by outgoing establishment and by advancing virtual time past the
//! ping interval; each PONG carries a scripted address. At every change of the UDP socket in the
//! local record the oracle recomputes, from its own vote log restricted to voters that were
//! eligible (connected and outgoing, read from the table just before the PONG), that the new
//! address is the latest unexpired vote of at least `min` distinct voters and that every rival of
//! that family has fewer than round(0.7 * count) voters; the sequence number increased, the
//! record verifies and `Event::SocketUpdated` was delivered.

use super::kb::Id;
use crate::peer::peersim::{build_enr, signing_key, EnrAddr};
use crate::rig::r1::{v4, v6};
use crate::rig::r2::{runtime, Mode, ServiceCfg, ServiceRig};
use crate::util::{hx, Params, Report, Rng};
use discv5::enr::NodeId;
use discv5::verif::{ConnectionDirection, HandlerIn, HandlerOut, RequestBody, Response, ResponseBody};
use discv5::{Enr, Event, NodeAddress, RequestError, RequestId};
use serde_json::{json, Value};
use std::collections::HashMap;
use std::net::SocketAddr;
use std::num::NonZeroU16;
use std::time::{Duration, Instant};

struct Voter {
    id: Id,
    enr: Enr,
    addr: SocketAddr,
    outgoing: bool,
}

#[derive(Clone, Debug)]
struct Vote {
    voter: Id,
    addr: SocketAddr,
    /// the vote was registered somewhere in [lo, hi]
    lo: Instant,
    hi: Instant,
    eligible: bool,
}

fn round_half_away(x: f64) -> usize {
    x.round() as usize
}

pub fn scenario(seed: u64, rep: &mut Report) {
    let rt = runtime(seed);
    rt.block_on(async {
        let mut rng = Rng::new(seed ^ 0xC17);
        let mode = if rng.chance(1, 3) { Mode::Dual } else { Mode::Ip4 };
        let min = 2 + rng.usize(5);
        let short_votes = rng.chance(1, 4);
        let vote_duration = if short_votes { Duration::from_millis(150) } else { Duration::from_secs(120) };
        let start_with_addr = rng.chance(1, 2);
        let mut rig = ServiceRig::start(&mut rng, ServiceCfg { mode, local_enr_has_addr: start_with_addr, tweak: Box::new(move |b| {
            b.enr_peer_update_min(min);
            b.vote_duration(vote_duration);
            b.auto_nat_listen_duration(None);
        }) }).await;
        // An application that was slow for a while: more events than the event channel holds pile
        // up and are then drained. Later address changes must still be announced.
        if rng.chance(1, 4) {
            let src = discv5::NodeAddress::new(v4(10, 41, 0, 1, 9500), NodeId::new(&rng.array()));
            for k in 0..130u32 {
                rig.emit(HandlerOut::Request(src.clone(), Box::new(discv5::verif::Request { id: RequestId(k.to_be_bytes().to_vec()), body: RequestBody::Talk { protocol: b"flood".to_vec(), request: vec![] } }))).await;
            }
            rig.settle().await;
            let drained = rig.take_events().len();
            rig.take_handler_in();
            rep.count("scenarios_after_event_backlog");
            rep.max("events_drained_after_backlog", drained as u64);
        }
        let nvoters = min + rng.usize(10);
        let mut voters: Vec<Voter> = (0..nvoters).map(|i| {
            let sk = signing_key(&mut rng);
            let addr = v4(10, 40, 0, 1 + i as u8, 9000 + i as u16);
            let enr = build_enr(&sk, 1, EnrAddr::Socket(addr), None);
            // in dual-stack runs every voter is eligible, so the "needs more votes" clause cannot
            // add voters the oracle does not count
            Voter { id: enr.node_id().raw(), enr, addr, outgoing: mode == Mode::Dual || rng.chance(3, 4) }
        }).collect();
        // candidate external addresses: the current one (if any) and rivals, both families
        let current4 = rig.local_enr().udp4_socket().map(SocketAddr::V4);
        let mut cands: Vec<SocketAddr> = vec![v4(198, 51, 100, 7, 30303), v4(198, 51, 100, 7, 30304), v4(203, 0, 113, 9, 30303)];
        if let Some(c) = current4 {
            cands.push(c);
            cands.push(c);
        }
        if mode == Mode::Dual {
            cands.push(v6(0x77, 30303));
            cands.push(v6(0x78, 30303));
        }
        let honest = *rng.pick(&cands);
        // a coordinated group: enough liars to reach the minimum on their own, one rival address,
        // answering before everyone else
        let coordinated = rng.chance(1, 3);
        let liars = if coordinated { (min + rng.usize(2)).min(nvoters) } else { rng.usize(min + 2) };
        // In a quarter of the runs an application thread keeps editing the local record (its own
        // key) while the votes come in, and reads the record back after every edit: no sequence
        // number may ever stand for two different records, whoever made them.
        let app_stop = std::sync::Arc::new(std::sync::atomic::AtomicBool::new(false));
        let app_thread = if rng.chance(1, 4) {
            let d = rig.discv5.clone();
            let stop = app_stop.clone();
            rep.count("runs_with_a_concurrent_record_editor");
            Some(std::thread::spawn(move || {
                let mut seen: HashMap<u64, Vec<u8>> = HashMap::new();
                let mut reused: Option<u64> = None;
                let mut edits = 0u64;
                let mut n = 0u64;
                while !stop.load(std::sync::atomic::Ordering::Relaxed) && edits < 200_000 {
                    n += 1;
                    if d.enr_insert("app", &n).is_ok() {
                        edits += 1;
                    }
                    for _ in 0..2 {
                        let e = d.local_enr();
                        let raw = crate::peer::rlp_ref::encode_record(&e);
                        match seen.get(&e.seq()) {
                            Some(old) if *old != raw => reused = Some(e.seq()),
                            Some(_) => {}
                            None => {
                                seen.insert(e.seq(), raw);
                            }
                        }
                    }
                    if seen.len() > 4096 {
                        let newest = *seen.keys().max().unwrap();
                        seen.retain(|s, _| *s + 64 > newest);
                    }
                }
                (edits, reused)
            }))
        } else {
            None
        };
        let mut votes: Vec<Vote> = Vec::new();
        let mut log: Vec<Value> = Vec::new();
        let mut open: Vec<(RequestId, NodeAddress)> = Vec::new();
        let mut updates = 0u64;
        let steady_refresh = short_votes && rng.bool();
        let liars_first = coordinated || rng.chance(1, 3);
        // the liars follow one plan for the whole run, or each decides anew for every vote
        let liar_mode: Option<u64> = if coordinated { Some(1) } else if rng.bool() { Some(rng.below(3)) } else { None };
        let rounds = if steady_refresh { 3 + rng.usize(3) } else { 2 + rng.usize(4) };
        let mut prev_enr = rig.local_enr();
        for round in 0..rounds {
            if round == 0 {
                for v in &voters {
                    let dir = if v.outgoing { ConnectionDirection::Outgoing } else { ConnectionDirection::Incoming };
                    rig.emit(HandlerOut::Established(v.enr.clone(), v.addr, dir)).await;
                }
                rig.settle().await;
            } else {
                if short_votes && steady_refresh {
                    // every voter votes again well within the life of its previous vote, while
                    // the time since its first vote grows beyond that life
                    std::thread::sleep(Duration::from_millis(80 + rng.below(25)));
                } else if short_votes && rng.bool() {
                    std::thread::sleep(Duration::from_millis(*rng.pick(&[40u64, 90, 170])));
                }
                // past the ping interval: every table entry is pinged again
                tokio::time::sleep(Duration::from_secs(301)).await;
                rig.settle().await;
            }
            for m in rig.take_handler_in() {
                if let HandlerIn::Request(c, r) = m {
                    if matches!(r.body, RequestBody::Ping { .. }) {
                        open.push((r.id.clone(), c.node_address()));
                    } else {
                        rig.emit(HandlerOut::RequestFailed(r.id.clone(), RequestError::Timeout)).await;
                    }
                }
            }
            rig.take_events();
            // answer the pings in random order
            rng.shuffle(&mut open);
            let mut pending: Vec<(RequestId, NodeAddress)> = open.drain(..).collect();
            if liars_first {
                // the liars are the quickest to answer
                pending.sort_by_key(|(_, na)| voters.iter().position(|v| v.id == na.node_id.raw()).unwrap_or(usize::MAX));
            }
            for (rid, na) in pending {
                let Some(vi) = voters.iter().position(|v| v.id == na.node_id.raw()) else { continue };
                if rng.chance(1, 12) {
                    // this voter stops answering: the request fails, the node is marked disconnected
                    rig.emit(HandlerOut::RequestFailed(rid, RequestError::Timeout)).await;
                    rig.settle().await;
                    log.push(json!({"round": round, "voter": vi, "ev": "ping failed"}));
                    continue;
                }
                let is_liar = vi < liars;
                let addr = if is_liar {
                    // liars agree on one rival, or spread, or change their mind between rounds
                    match liar_mode.unwrap_or_else(|| rng.below(3)) {
                        0 => cands[(vi + round) % cands.len()],
                        1 => cands[0],
                        _ => *rng.pick(&cands),
                    }
                } else if rng.chance(1, 10) {
                    *rng.pick(&cands)
                } else {
                    honest
                };
                // eligibility as the service will see it: read the table just before the PONG
                let eligible = rig.discv5.with_kbuckets(|t| {
                    t.read().iter_ref().any(|e| e.node.key.preimage().raw() == voters[vi].id && e.status.is_connected() && !e.status.is_incoming())
                });
                let lo = Instant::now();
                rig.emit(HandlerOut::Response(na.clone(), Box::new(Response { id: rid, body: ResponseBody::Pong { enr_seq: 1, ip: addr.ip(), port: NonZeroU16::new(addr.port()).unwrap() } }))).await;
                rig.settle().await;
                let hi = Instant::now();
                votes.push(Vote { voter: voters[vi].id, addr, lo, hi, eligible });
                rep.count("pongs");
                if eligible {
                    rep.count("eligible_votes");
                }
                log.push(json!({"round": round, "voter": vi, "vote": addr.to_string(), "eligible": eligible}));
                let evs = rig.take_events();
                let now_enr = rig.local_enr();
                for fam6 in [false, true] {
                    let before = if fam6 { prev_enr.udp6_socket().map(SocketAddr::V6) } else { prev_enr.udp4_socket().map(SocketAddr::V4) };
                    let after = if fam6 { now_enr.udp6_socket().map(SocketAddr::V6) } else { now_enr.udp4_socket().map(SocketAddr::V4) };
                    if before == after {
                        continue;
                    }
                    updates += 1;
                    rep.count("address_updates");
                    let w = json!({"scenario_seed": seed.to_string(), "min": min, "mode": format!("{mode:?}"), "vote_duration_ms": vote_duration.as_millis() as u64, "before": before.map(|a| a.to_string()), "after": after.map(|a| a.to_string()), "log": log});
                    let Some(a) = after else {
                        rep.violation("C17:address-removed-by-pong", "the UDP address disappeared from the local record as a result of a PONG".into(), w);
                        continue;
                    };
                    // tally: latest vote of each voter in this family; a vote counts if it was
                    // eligible and may be unexpired (lenient on the measurement uncertainty)
                    let mut latest: HashMap<Id, &Vote> = HashMap::new();
                    for v in votes.iter().filter(|v| v.addr.is_ipv6() == fam6 && v.eligible) {
                        latest.insert(v.voter, v);
                    }
                    let mut sure: HashMap<SocketAddr, usize> = HashMap::new(); // definitely unexpired
                    let mut maybe: HashMap<SocketAddr, usize> = HashMap::new(); // possibly unexpired
                    for v in latest.values() {
                        if hi < v.lo + vote_duration {
                            *sure.entry(v.addr).or_default() += 1;
                        }
                        if lo <= v.hi + vote_duration {
                            *maybe.entry(v.addr).or_default() += 1;
                        }
                    }
                    let count_max = *maybe.get(&a).unwrap_or(&0);
                    if count_max < min {
                        rep.violation("C17:update-below-minimum", format!("the address changed to {a} backed by {count_max} eligible current votes, minimum {min}"), w.clone());
                    }
                    // rivals: even counting only votes that are surely alive, none may reach the margin
                    for (b, n) in &sure {
                        if *b != a && *n >= round_half_away(count_max as f64 * 0.7) && *n > 0 {
                            rep.violation("C17:update-without-clear-majority", format!("the address changed to {a} ({count_max} votes) although rival {b} has {n} current votes"), w.clone());
                        }
                    }
                    if now_enr.seq() <= prev_enr.seq() {
                        rep.violation("C17:seq-not-increased", "the record changed without a higher sequence number".into(), w.clone());
                    }
                    if !now_enr.verify() {
                        rep.violation("C17:record-signature-invalid", "the updated record does not verify".into(), w.clone());
                    }
                    if !evs.iter().any(|e| matches!(e, Event::SocketUpdated(s) if *s == a)) {
                        rep.violation("C17:update-not-announced", "the address change was not announced as an event".into(), w.clone());
                    }
                }
                prev_enr = now_enr;
            }
        }
        app_stop.store(true, std::sync::atomic::Ordering::Relaxed);
        if let Some(h) = app_thread {
            if let Ok((edits, reused)) = h.join() {
                rep.count_n("concurrent_record_edits", edits);
                if let Some(seq) = reused {
                    rep.violation("C17:sequence-number-reused", format!("two different local records carried sequence number {seq} (an application thread was editing the record while votes changed the address)"), json!({"scenario_seed": seed.to_string(), "min": min, "mode": format!("{mode:?}"), "note": "real threads: the interleaving is not reproducible from the seed", "log": log.iter().rev().take(12).rev().cloned().collect::<Vec<_>>()}));
                }
            }
        }
        rep.evaluations += 1;
        let _ = &mut voters;
        rep.fingerprint(&(format!("{mode:?}"), min, liars.min(8), updates.min(4), short_votes, start_with_addr));
        if rep.want_sample() && updates > 0 {
            rep.sample(json!({"scenario_seed": seed.to_string(), "min": min, "mode": format!("{mode:?}"), "voters": nvoters, "liars": liars, "updates": updates, "votes": log.iter().take(14).cloned().collect::<Vec<_>>()}));
        }
    });
}

pub fn run(p: &Params) -> Report {
    let mut rep = Report::new("C17");
    if let Some(r) = &p.replay {
        if super::sys::replay(r, &mut rep) {
            return rep;
        }
    }
    if let Some(r) = &p.replay {
        let seed: u64 = r["replay"]["scenario_seed"].as_str().unwrap().parse().unwrap();
        scenario(seed, &mut rep);
        return rep;
    }
    let n = p.budget(4_000, 200_000);
    for i in 0..n {
        let seed = p.shard_seed(0x17_0000 + i);
        crate::util::guarded(&mut rep, seed, |rep| scenario(seed, rep));
    }
    let _ = hx;
    // full stack: votes arrive as PONGs of real exchanges with simulated peers
    super::sys::run_votes(p, 0x5C17_0000, 1600, 100_000, &mut rep);
    rep
}
