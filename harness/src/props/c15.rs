//! C15, R0 half — `LruTimeCache` against a small model (ordered list + time-stamp intervals).
//!
//! The cache reads `std::time::Instant`, so the harness uses real sleeps around a short ttl and
//! *measures* the instants around every call. A stamp is known only as an interval; an access is
//! judged only when it is definitely before or definitely after expiry, otherwise it is counted
//! as `uncertain` and the model adopts the implementation's answer.

use crate::util::{Params, Report, Rng};
use discv5::verif::LruTimeCache;
use serde_json::{json, Value};
use std::time::{Duration, Instant};

#[derive(Clone, Debug)]
struct Entry {
    key: u32,
    val: u64,
    /// the stamp lies in [lo, hi]
    lo: Instant,
    hi: Instant,
}

#[derive(PartialEq, Eq, Debug, Clone, Copy)]
enum Life {
    Alive,
    Expired,
    Uncertain,
}

fn life(e: &Entry, ttl: Duration, tb: Instant, ta: Instant) -> Life {
    if ta <= e.lo + ttl {
        Life::Alive
    } else if tb > e.hi + ttl {
        Life::Expired
    } else {
        Life::Uncertain
    }
}

pub fn scenario(seed: u64, rep: &mut Report) {
    let mut rng = Rng::new(seed);
    let ttl = Duration::from_millis(40);
    let capacity = 1 + rng.usize(5);
    let mut cache: LruTimeCache<u32, u64> = LruTimeCache::new(ttl, Some(capacity));
    let mut model: Vec<Entry> = Vec::new(); // front = least recently used
    let nkeys = capacity as u64 + 1 + rng.below(3);
    let mut log: Vec<Value> = Vec::new();
    let nops = 25 + rng.usize(30);
    let t0 = Instant::now();
    let mut expired_probes = 0u64;
    let mut evictions = 0u64;
    for step in 0..nops {
        let key = rng.below(nkeys) as u32;
        let op = rng.below(100);
        let witness = |log: &Vec<Value>, what: &str| json!({"scenario_seed": seed.to_string(), "step": step, "what": what, "capacity": capacity, "ttl_ms": 40, "ops": log});
        let tb = Instant::now();
        if op < 30 {
            // insert
            let val = rng.next_u64();
            cache.insert(key, val);
            let ta = Instant::now();
            log.push(json!({"t_ms": (tb - t0).as_millis() as u64, "op": "insert", "key": key}));
            model.retain(|e| e.key != key);
            model.push(Entry { key, val, lo: tb, hi: ta });
            let mut evicted = None;
            if model.len() > capacity {
                evicted = Some(model.remove(0).key);
                evictions += 1;
                rep.count("capacity_evictions");
            }
            // which key did the implementation drop? probe with peek-free `remove` on a clone is
            // not possible; compare key sets through len + targeted removes at the end instead.
            let len = cache.len();
            if len > capacity {
                rep.violation("C15:cache-over-capacity", format!("cache holds {len} entries, capacity {capacity}"), witness(&log, "len"));
            }
            if len != model.len() {
                rep.violation("C15:cache-len", format!("cache holds {len} entries, model {}", model.len()), witness(&log, "len"));
            }
            if let Some(victim) = evicted {
                // the victim must be gone: `remove` returns None for it (this does not disturb order)
                if cache.remove(&victim).is_some() {
                    rep.violation("C15:evicted-not-lru", format!("after inserting into a full cache the least recently used key {victim} is still present"), witness(&log, "victim"));
                    // keep model and cache in sync: whatever was dropped instead is unknown
                }
            }
        } else if op < 65 {
            // get / get_mut
            let got = if op < 48 { cache.get(&key).copied() } else { cache.get_mut(&key).map(|v| *v) };
            let ta = Instant::now();
            log.push(json!({"t_ms": (tb - t0).as_millis() as u64, "op": "get", "key": key, "got": got.is_some()}));
            let pos = model.iter().position(|e| e.key == key);
            match pos {
                None => {
                    if got.is_some() {
                        rep.violation("C15:get-absent", "get returned a value for an absent key".into(), witness(&log, "absent"));
                    }
                }
                Some(i) => match life(&model[i], ttl, tb, ta) {
                    Life::Alive => {
                        rep.count("get_alive");
                        if got != Some(model[i].val) {
                            rep.violation("C15:get-alive-missing", "get did not return a live entry".into(), witness(&log, "alive"));
                        } else {
                            let mut e = model.remove(i);
                            e.lo = tb;
                            e.hi = ta;
                            model.push(e);
                        }
                    }
                    Life::Expired => {
                        expired_probes += 1;
                        rep.count("get_expired");
                        if got.is_some() {
                            rep.violation("C15:expired-entry-used", "get/get_mut returned an entry idle for longer than the ttl".into(), witness(&log, "expired"));
                            // the implementation revived it: follow it so that later steps stay meaningful
                            let mut e = model.remove(i);
                            e.lo = tb;
                            e.hi = ta;
                            model.push(e);
                        }
                    }
                    Life::Uncertain => {
                        rep.count("uncertain_access");
                        if got.is_some() {
                            let mut e = model.remove(i);
                            e.lo = tb;
                            e.hi = ta;
                            model.push(e);
                        }
                    }
                },
            }
        } else if op < 75 {
            let got = cache.peek(&key).copied();
            let ta = Instant::now();
            log.push(json!({"t_ms": (tb - t0).as_millis() as u64, "op": "peek", "key": key, "got": got.is_some()}));
            if let Some(e) = model.iter().find(|e| e.key == key) {
                match life(e, ttl, tb, ta) {
                    Life::Alive if got != Some(e.val) => rep.violation("C15:peek-alive-missing", "peek did not return a live entry".into(), witness(&log, "peek")),
                    Life::Expired if got.is_some() => rep.violation("C15:expired-entry-used", "peek returned an entry idle for longer than the ttl".into(), witness(&log, "peek")),
                    _ => {}
                }
            } else if got.is_some() {
                rep.violation("C15:get-absent", "peek returned a value for an absent key".into(), witness(&log, "peek"));
            }
        } else if op < 82 {
            let got = cache.remove(&key);
            log.push(json!({"t_ms": (tb - t0).as_millis() as u64, "op": "remove", "key": key, "got": got.is_some()}));
            let pos = model.iter().position(|e| e.key == key);
            if got.is_some() != pos.is_some() {
                rep.violation("C15:remove-mismatch", "remove disagrees with the model about presence".into(), witness(&log, "remove"));
            }
            if let Some(i) = pos {
                model.remove(i);
            }
        } else if op < 90 {
            let expired = cache.remove_expired_values();
            let ta = Instant::now();
            log.push(json!({"t_ms": (tb - t0).as_millis() as u64, "op": "remove_expired_values", "removed": expired}));
            // expected: a prefix of the model (front first); definitely-expired ones must go,
            // definitely-alive ones must stay
            let mut k = 0;
            for e in &model {
                match life(e, ttl, tb, ta) {
                    Life::Expired => k += 1,
                    _ => break,
                }
            }
            let must: Vec<u32> = model[..k].iter().map(|e| e.key).collect();
            if expired.len() < must.len() || expired[..must.len()] != must[..] {
                rep.violation("C15:purge-missed-expired", "remove_expired_values left an expired entry at the front".into(), witness(&log, "purge"));
            }
            for key in &expired {
                if let Some(e) = model.iter().find(|e| e.key == *key) {
                    if life(e, ttl, tb, ta) == Life::Alive {
                        rep.violation("C15:purge-removed-live", "remove_expired_values removed a live entry".into(), witness(&log, "purge"));
                    }
                }
            }
            model.retain(|e| !expired.contains(&e.key));
            rep.count_n("purged", expired.len() as u64);
        } else {
            let ms = *rng.pick(&[3u64, 10, 25, 45, 60]);
            std::thread::sleep(Duration::from_millis(ms));
            log.push(json!({"t_ms": (tb - t0).as_millis() as u64, "op": "sleep", "ms": ms}));
        }
        let len = cache.len();
        if len > capacity {
            rep.violation("C15:cache-over-capacity", format!("cache holds {len} entries, capacity {capacity}"), witness(&log, "len"));
        }
    }
    rep.evaluations += 1;
    rep.fingerprint(&(capacity, expired_probes.min(5), evictions.min(5), model.len()));
    if rep.want_sample() && expired_probes > 0 {
        rep.sample(json!({"scenario_seed": seed.to_string(), "capacity": capacity, "ops": log}));
    }
}

pub fn run_r0(p: &Params, rep: &mut Report) {
    let n = p.budget(160, 12_000);
    for i in 0..n {
        let seed = p.shard_seed(0x15_000 + i);
        crate::util::guarded(rep, seed, |rep| scenario(seed, rep));
    }
}
