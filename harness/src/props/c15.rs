//! C15, R0 half — `LruTimeCache` against a small model (ordered list + time-stamp intervals).
//!
//! The cache reads `std::time::Instant`, so the harness uses real sleeps around a short ttl and
//! *measures* the instants around every call. A stamp is known only as an interval; an access is
//! judged only when it is definitely before or definitely after expiry, otherwise it is counted
//! as `uncertain` and the model adopts the implementation's answer.

use crate::util::{Params, Report, Rng};
use discv5::verif::LruTimeCache;
use serde_json::{json, Value};
use std::time::{Duration, Instant};

#[derive(Clone, Debug)]
struct Entry {
    key: u32,
    val: u64,
    /// the stamp lies in [lo, hi]
    lo: Instant,
    hi: Instant,
}

#[derive(PartialEq, Eq, Debug, Clone, Copy)]
enum Life {
    Alive,
    Expired,
    Uncertain,
}

fn life(e: &Entry, ttl: Duration, tb: Instant, ta: Instant) -> Life {
    if ta <= e.lo + ttl {
        Life::Alive
    } else if tb > e.hi + ttl {
        Life::Expired
    } else {
        Life::Uncertain
    }
}

pub fn scenario(seed: u64, rep: &mut Report) {
    let mut rng = Rng::new(seed);
    let ttl = Duration::from_millis(40);
    let capacity = 1 + rng.usize(5);
    let mut cache: LruTimeCache<u32, u64> = LruTimeCache::new(ttl, Some(capacity));
    let mut model: Vec<Entry> = Vec::new(); // front = least recently used
    let nkeys = capacity as u64 + 1 + rng.below(3);
    let mut log: Vec<Value> = Vec::new();
    let nops = 25 + rng.usize(30);
    let t0 = Instant::now();
    let mut expired_probes = 0u64;
    let mut evictions = 0u64;
    for step in 0..nops {
        let key = rng.below(nkeys) as u32;
        let op = rng.below(100);
        let witness = |log: &Vec<Value>, what: &str| json!({"scenario_seed": seed.to_string(), "step": step, "what": what, "capacity": capacity, "ttl_ms": 40, "ops": log});
        let tb = Instant::now();
        if op < 30 {
            // insert
            let val = rng.next_u64();
            cache.insert(key, val);
            let ta = Instant::now();
            log.push(json!({"t_ms": (tb - t0).as_millis() as u64, "op": "insert", "key": key}));
            model.retain(|e| e.key != key);
            model.push(Entry { key, val, lo: tb, hi: ta });
            let mut evicted = None;
            if model.len() > capacity {
                evicted = Some(model.remove(0).key);
                evictions += 1;
                rep.count("capacity_evictions");
            }
            // which key did the implementation drop? probe with peek-free `remove` on a clone is
            // not possible; compare key sets through len + targeted removes at the end instead.
            let len = cache.len();
            if len > capacity {
                rep.violation("C15:cache-over-capacity", format!("cache holds {len} entries, capacity {capacity}"), witness(&log, "len"));
            }
            if len != model.len() {
                rep.violation("C15:cache-len", format!("cache holds {len} entries, model {}", model.len()), witness(&log, "len"));
            }
            if let Some(victim) = evicted {
                // the victim must be gone: `remove` returns None for it (this does not disturb order)
                if cache.remove(&victim).is_some() {
                    rep.violation("C15:evicted-not-lru", format!("after inserting into a full cache the least recently used key {victim} is still present"), witness(&log, "victim"));
                    // keep model and cache in sync: whatever was dropped instead is unknown
                }
            }
        } else if op < 65 {
            // get / get_mut
            let got = if op < 48 { cache.get(&key).copied() } else { cache.get_mut(&key).map(|v| *v) };
            let ta = Instant::now();
            log.push(json!({"t_ms": (tb - t0).as_millis() as u64, "op": "get", "key": key, "got": got.is_some()}));
            let pos = model.iter().position(|e| e.key == key);
            match pos {
                None => {
                    if got.is_some() {
                        rep.violation("C15:get-absent", "get returned a value for an absent key".into(), witness(&log, "absent"));
                    }
                }
                Some(i) => match life(&model[i], ttl, tb, ta) {
                    Life::Alive => {
                        rep.count("get_alive");
                        if got != Some(model[i].val) {
                            rep.violation("C15:get-alive-missing", "get did not return a live entry".into(), witness(&log, "alive"));
                        } else {
                            let mut e = model.remove(i);
                            e.lo = tb;
                            e.hi = ta;
                            model.push(e);
                        }
                    }
                    Life::Expired => {
                        expired_probes += 1;
                        rep.count("get_expired");
                        if got.is_some() {
                            rep.violation("C15:expired-entry-used", "get/get_mut returned an entry idle for longer than the ttl".into(), witness(&log, "expired"));
                            // the implementation revived it: follow it so that later steps stay meaningful
                            let mut e = model.remove(i);
                            e.lo = tb;
                            e.hi = ta;
                            model.push(e);
                        }
                    }
                    Life::Uncertain => {
                        rep.count("uncertain_access");
                        if got.is_some() {
                            let mut e = model.remove(i);
                            e.lo = tb;
                            e.hi = ta;
                            model.push(e);
                        }
                    }
                },
            }
        } else if op < 75 {
            let got = cache.peek(&key).copied();
            let ta = Instant::now();
            log.push(json!({"t_ms": (tb - t0).as_millis() as u64, "op": "peek", "key": key, "got": got.is_some()}));
            if let Some(e) = model.iter().find(|e| e.key == key) {
                match life(e, ttl, tb, ta) {
                    Life::Alive if got != Some(e.val) => rep.violation("C15:peek-alive-missing", "peek did not return a live entry".into(), witness(&log, "peek")),
                    Life::Expired if got.is_some() => rep.violation("C15:expired-entry-used", "peek returned an entry idle for longer than the ttl".into(), witness(&log, "peek")),
                    _ => {}
                }
            } else if got.is_some() {
                rep.violation("C15:get-absent", "peek returned a value for an absent key".into(), witness(&log, "peek"));
            }
        } else if op < 82 {
            let got = cache.remove(&key);
            log.push(json!({"t_ms": (tb - t0).as_millis() as u64, "op": "remove", "key": key, "got": got.is_some()}));
            let pos = model.iter().position(|e| e.key == key);
            if got.is_some() != pos.is_some() {
                rep.violation("C15:remove-mismatch", "remove disagrees with the model about presence".into(), witness(&log, "remove"));
            }
            if let Some(i) = pos {
                model.remove(i);
            }
        } else if op < 90 {
            let expired = cache.remove_expired_values();
            let ta = Instant::now();
            log.push(json!({"t_ms": (tb - t0).as_millis() as u64, "op": "remove_expired_values", "removed": expired}));
            // expected: a prefix of the model (front first); definitely-expired ones must go,
            // definitely-alive ones must stay
            let mut k = 0;
            for e in &model {
                match life(e, ttl, tb, ta) {
                    Life::Expired => k += 1,
                    _ => break,
                }
            }
            let must: Vec<u32> = model[..k].iter().map(|e| e.key).collect();
            if expired.len() < must.len() || expired[..must.len()] != must[..] {
                rep.violation("C15:purge-missed-expired", "remove_expired_values left an expired entry at the front".into(), witness(&log, "purge"));
            }
            for key in &expired {
                if let Some(e) = model.iter().find(|e| e.key == *key) {
                    if life(e, ttl, tb, ta) == Life::Alive {
                        rep.violation("C15:purge-removed-live", "remove_expired_values removed a live entry".into(), witness(&log, "purge"));
                    }
                }
            }
            model.retain(|e| !expired.contains(&e.key));
            rep.count_n("purged", expired.len() as u64);
        } else {
            let ms = *rng.pick(&[3u64, 10, 25, 45, 60]);
            std::thread::sleep(Duration::from_millis(ms));
            log.push(json!({"t_ms": (tb - t0).as_millis() as u64, "op": "sleep", "ms": ms}));
        }
        let len = cache.len();
        if len > capacity {
            rep.violation("C15:cache-over-capacity", format!("cache holds {len} entries, capacity {capacity}"), witness(&log, "len"));
        }
    }
    rep.evaluations += 1;
    rep.fingerprint(&(capacity, expired_probes.min(5), evictions.min(5), model.len()));
    if rep.want_sample() && expired_probes > 0 {
        rep.sample(json!({"scenario_seed": seed.to_string(), "capacity": capacity, "ops": log}));
    }
}

pub fn run_r0(p: &Params, rep: &mut Report) {
    let n = p.budget(480, 24_000);
    for i in 0..n {
        let seed = p.shard_seed(0x15_000 + i);
        crate::util::guarded(rep, seed, |rep| scenario(seed, rep));
    }
}

/* ------------------------------------------------------------------------------------------ */
/* R1 half: the real handler on the virtual wire                                               */

use crate::rig::engine::{Engine, Ev, OutClass};
use crate::rig::r1::{runtime, RigConfig};
use discv5::verif::HandlerOut;

const TTL: Duration = Duration::from_millis(80);

/// Expiry: a session idle for longer than the timeout must not be used in either direction.
pub fn scenario_expiry(seed: u64, rep: &mut Report) {
    let rt = runtime(seed);
    rt.block_on(async {
        let mut rng = Rng::new(seed ^ 0x15E);
        let cfg = RigConfig { session_timeout: TTL, session_cache_capacity: 100, request_retries: 1 + rng.below(3) as u8, ..Default::default() };
        let transmissions = cfg.request_retries;
        let mut e = Engine::new(seed, cfg, 1, None).await;
        e.wru_delays = vec![None]; // never answer who-are-you queries: the cache is not disturbed by probes
        e.app_responds = true;
        // establish (peer-initiated needs a who-are-you answer: do it once by hand)
        e.wru_delays = vec![Some(Duration::ZERO)];
        e.peer_request(0, 1);
        e.drain().await;
        e.wru_delays = vec![None];
        let vid = e.victim_id;
        if e.peers[0].sim.latest(&vid).is_none() {
            rep.inconclusive(format!("expiry scenario {seed}: session not established"));
            return;
        }
        let old_gens = e.peers[0].mon_keys.len();
        // optional refreshing traffic after a short pause
        let mut last_use = Instant::now();
        let refresh = if transmissions >= 2 && rng.chance(1, 3) {
            3
        } else if rng.chance(1, 4) {
            4
        } else {
            rng.below(3)
        };
        let mut idle_choice: Option<u64> = None;
        if refresh == 3 {
            // a request the peer never answers: its first transmission is a use of the session,
            // the retransmission of the same packet 60 ms later is not
            e.peers[0].behaviour.respond = false;
            e.submit(0, 1, true);
            e.drain().await;
            last_use = Instant::now();
            std::thread::sleep(Duration::from_millis(60));
            let t = e.rig.cfg_request_timeout;
            e.run_for(t + Duration::from_millis(50)).await;
            let again = e.trace.iter().filter(|t| matches!(&t.ev, Ev::Sent { class: OutClass::Message { msg: Some(m), .. }, .. } if m.is_request())).count();
            if again >= 2 {
                rep.count("retransmissions_while_idle");
            }
            idle_choice = Some(*rng.pick(&[45u64, 45, 130]));
        } else if refresh == 4 {
            // the peer's earlier handshake packet arrives once more (a duplicate on the network, or
            // a repetition by the peer) 60 ms into the idle period, when no challenge is
            // outstanding: it is dropped, and being dropped is not a use of the session
            let hs = e.trace.iter().find_map(|t| match &t.ev {
                Ev::Injected { from, class: c @ crate::rig::engine::InClass::Handshake { .. }, bytes, .. } => Some((*from, c.clone(), bytes.clone())),
                _ => None,
            });
            std::thread::sleep(Duration::from_millis(60));
            if let Some((from, class, bytes)) = hs {
                e.inject_now(Some(0), from, bytes, crate::rig::engine::InClass::Replay { of: Box::new(class), same_source: true });
                e.drain().await;
                rep.count("stray_handshake_packets_while_idle");
            }
            idle_choice = Some(*rng.pick(&[45u64, 45, 130]));
        } else if refresh > 0 {
            std::thread::sleep(Duration::from_millis(25));
            if refresh == 1 {
                e.peer_request(0, 5); // inbound traffic
            } else {
                e.submit(0, 1, true); // outbound traffic
            }
            e.drain().await;
            last_use = Instant::now();
        }
        let idle = idle_choice.unwrap_or_else(|| *rng.pick(&[10u64, 30, 130, 200]));
        std::thread::sleep(Duration::from_millis(idle));
        // ---- probe ----
        e.peers[0].behaviour.challenge_unknown = false;
        e.peers[0].behaviour.respond = false;
        let mark = e.trace.len();
        let outbound = rng.bool();
        let idle_lo = last_use.elapsed(); // at least this long since the last use
        let probe_id = if outbound { e.submit(0, 1, true) } else { e.peer_request(0, 1) };
        e.drain().await;
        let idle_hi = last_use.elapsed();
        rep.evaluations += 1;
        let margin = Duration::from_millis(12);
        let definitely_expired = idle_lo > TTL + margin;
        let definitely_alive = idle_hi + margin < TTL;
        let used = e.trace[mark..].iter().any(|t| match &t.ev {
            Ev::Sent { class: OutClass::Message { gen, msg: Some(m), .. }, .. } => outbound && *gen < old_gens && m.is_request() && m.id() == &probe_id[..],
            Ev::Out(HandlerOut::Request(..)) => !outbound,
            _ => false,
        });
        let refresh_name = ["none", "inbound", "outbound", "outbound request left unanswered and retransmitted", "a repeated handshake packet that matches no challenge"][refresh as usize];
        let w = json!({"scenario_seed": seed.to_string(), "kind": "expiry", "direction": if outbound { "outbound request" } else { "inbound message under the old keys" }, "refresh": refresh_name, "idle_ms": [idle_lo.as_millis() as u64, idle_hi.as_millis() as u64], "ttl_ms": 80, "trace": e.dump_trace(12)});
        if definitely_expired {
            rep.count("probes_after_expiry");
            if used {
                rep.violation("C15:expired-session-used", format!("a session idle for {:?} (timeout 80 ms) was used for an {}", idle_lo, if outbound { "outbound request" } else { "inbound message" }), w);
            }
        } else if definitely_alive {
            rep.count("probes_before_expiry");
            if used {
                rep.count("live_session_used");
            }
        } else {
            rep.count("uncertain_access");
        }
        rep.fingerprint(&("expiry", outbound, refresh, idle, definitely_expired));
    });
}

/// Capacity: never more than `capacity` sessions; the least recently used one is dropped.
pub fn scenario_capacity(seed: u64, rep: &mut Report) {
    let rt = runtime(seed);
    rt.block_on(async {
        let mut rng = Rng::new(seed ^ 0x15C);
        let capacity = 1 + rng.usize(4);
        let npeers = capacity + 1 + rng.usize(3);
        // the capacity is the configured one whatever the node listens on: one IPv4 socket, one
        // IPv6 socket, or both
        let stack = *rng.pick(&[crate::rig::r1::Stack::V4, crate::rig::r1::Stack::Dual, crate::rig::r1::Stack::Dual, crate::rig::r1::Stack::V6]);
        let addrs: Option<Vec<std::net::SocketAddr>> = match stack {
            crate::rig::r1::Stack::V4 => None,
            crate::rig::r1::Stack::V6 => Some((0..npeers).map(|i| crate::rig::r1::v6(0x60 + i as u16, 9000)).collect()),
            crate::rig::r1::Stack::Dual => Some((0..npeers).map(|i| if i % 2 == 0 { crate::rig::r1::v4(10, 0, 1, 2 + i as u8, 9000) } else { crate::rig::r1::v6(0x60 + i as u16, 9000) }).collect()),
        };
        let cfg = RigConfig { stack, session_timeout: Duration::from_secs(3600), session_cache_capacity: capacity, ..Default::default() };
        let mut e = Engine::new(seed, cfg, npeers, addrs).await;
        e.wru_delays = vec![Some(Duration::ZERO)];
        // model: least recently used first
        let mut lru: Vec<usize> = Vec::new();
        let mut log: Vec<Value> = Vec::new();
        let nsteps = npeers + rng.usize(12);
        let mut order: Vec<usize> = (0..npeers).collect();
        rng.shuffle(&mut order);
        let vid = e.victim_id;
        for step in 0..nsteps {
            let i = if step < npeers { order[step] } else { rng.usize(npeers) };
            let has_session = lru.contains(&i);
            if has_session && rng.bool() {
                // use the session: traffic in either direction
                if rng.bool() {
                    e.submit(i, 1, true);
                } else {
                    e.peer_request(i, 5);
                }
                e.drain().await;
                lru.retain(|x| *x != i);
                lru.push(i);
                log.push(json!({"step": step, "ev": "use", "peer": i}));
            } else {
                // (re-)establish from the peer's side with fresh keys
                e.peer_lose_session(i);
                e.peer_request(i, 1);
                e.drain().await;
                if e.peers[i].sim.latest(&vid).is_some() {
                    lru.retain(|x| *x != i);
                    lru.push(i);
                    if lru.len() > capacity {
                        let victim = lru.remove(0);
                        log.push(json!({"step": step, "ev": "establish", "peer": i, "model_evicts": victim}));
                        // the evicted peer's keys are dead on the victim's side
                    } else {
                        log.push(json!({"step": step, "ev": "establish", "peer": i}));
                    }
                }
            }
            let sessions = discv5::Discv5::metrics().active_sessions;
            if sessions > capacity {
                rep.violation("C15:cache-over-capacity", format!("{sessions} sessions held, capacity {capacity}"), json!({"scenario_seed": seed.to_string(), "kind": "capacity", "log": log}));
            }
        }
        // ---- read the survivor set: an inbound probe under the latest keys of every peer ----
        e.wru_delays = vec![None];
        e.app_responds = false;
        let mut alive: Vec<usize> = Vec::new();
        // probe in LRU order so that the reads themselves do not change who survives
        for i in 0..npeers {
            if e.peers[i].sim.latest(&vid).is_none() {
                continue;
            }
            let mark = e.trace.len();
            let id = e.peer_request(i, 1);
            e.drain().await;
            if e.trace[mark..].iter().any(|t| matches!(&t.ev, Ev::Out(HandlerOut::Request(_, r)) if r.id.0 == id)) {
                alive.push(i);
            }
        }
        rep.evaluations += 1;
        rep.count("capacity_scenarios");
        let mut want = lru.clone();
        want.sort();
        alive.sort();
        if alive != want {
            let sig = if alive.len() > capacity { "C15:cache-over-capacity" } else { "C15:evicted-not-lru" };
            rep.violation(sig, format!("sessions alive with peers {alive:?}, the {capacity} most recently used are {want:?}"), json!({"scenario_seed": seed.to_string(), "kind": "capacity", "capacity": capacity, "log": log}));
        }
        rep.fingerprint(&("capacity", capacity, npeers, nsteps.min(20)));
        if rep.want_sample() {
            rep.sample(json!({"scenario_seed": seed.to_string(), "kind": "capacity", "capacity": capacity, "peers": npeers, "log": log.iter().take(12).cloned().collect::<Vec<_>>(), "survivors": alive}));
        }
    });
}

pub fn run(p: &Params) -> Report {
    let mut rep = Report::new("C15");
    if let Some(r) = &p.replay {
        let seed: u64 = r["replay"]["scenario_seed"].as_str().unwrap().parse().unwrap();
        match r["replay"]["kind"].as_str() {
            Some("expiry") => scenario_expiry(seed, &mut rep),
            Some("capacity") => scenario_capacity(seed, &mut rep),
            _ => scenario(seed, &mut rep),
        }
        return rep;
    }
    run_r0(p, &mut rep);
    let n = p.budget(480, 24_000);
    for i in 0..n {
        let seed = p.shard_seed(0x15E_000 + i);
        crate::util::guarded(&mut rep, seed, |rep| scenario_expiry(seed, rep));
    }
    let m = p.budget(1_600, 100_000);
    for i in 0..m {
        let seed = p.shard_seed(0x15C_000 + i);
        crate::util::guarded(&mut rep, seed, |rep| scenario_capacity(seed, rep));
    }
    rep
}
