pub mod c01;
pub mod c02;
pub mod c03;
pub mod c04;
pub mod c05;
pub mod c06;
pub mod c07;
pub mod c08;
pub mod c09;
pub mod c09r2;
pub mod c11;
pub mod c12;
pub mod c14;
pub mod c15;
pub mod c16;
pub mod c17;
pub mod c18;
pub mod c20;
pub mod kb;
pub mod miri;
pub mod smoke;
pub mod sys;
pub mod wire;

use crate::util::{Params, Report};

pub fn dispatch(prop: &str, p: &Params) -> Option<Report> {
    Some(match prop {
        "C01" => c01::run(p),
        "C02" => c02::run(p),
        "C03" => c03::run(p),
        "C04" => c04::run_c04(p),
        "C13" => c04::run_c13(p),
        "C19" => c04::run_c19(p),
        "C05" => c05::run(p),
        "C06" => c06::run(p),
        "C07" => c07::run(p),
        "C08" => c08::run(p),
        "C15" => c15::run(p),
        "C11" => c11::run(p),
        "C12" => c12::run(p),
        "C14" => c14::run(p),
        "C16" => c16::run(p),
        "C17" => c17::run(p),
        "C18" => c18::run(p),
        "C20" => c20::run(p),
        "C09" => c09::run(p, "C09"),
        "C10" => c09::run(p, "C10"),
        "SYS" => sys::run_debug(p),
        _ => return None,
    })
}
