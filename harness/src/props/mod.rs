pub mod c08;
pub mod kb;
pub mod smoke;

use crate::util::{Params, Report};

pub fn dispatch(prop: &str, p: &Params) -> Option<Report> {
    Some(match prop {
        "C08" => c08::run(p),
        _ => return None,
    })
}
