//! C06 — RPC message codec is exact, total and strict.
//!
//! Differential oracle against `rlp_ref` (strict canonical RLP + the discv5 message schema).
//! Disagreements are *classified*: implementation-accepts / reference-rejects is a violation iff
//! the reference's reason is one the statement names; other disagreements (e.g. integer
//! canonicity) are counted as `unclassified` and never alarm.

use super::c05::record_pool;
use crate::peer::rlp_ref::{self, RefMessage, Reject};
use crate::util::{hx, probe, Params, Report, Rng};
use discv5::verif::{Message, Request, RequestBody, Response, ResponseBody};
use discv5::{Enr, RequestId};
use serde_json::json;
use std::net::{IpAddr, Ipv4Addr, Ipv6Addr};
use std::num::NonZeroU16;

fn gen_id(rng: &mut Rng) -> Vec<u8> {
    match rng.below(6) {
        0 => vec![],
        1 => vec![rng.below(0x80) as u8],
        2 => vec![0, rng.below(256) as u8],
        3 => vec![0x80 + rng.below(0x80) as u8],
        _ => {
            let n = rng.usize(9);
            rng.bytes(n)
        }
    }
}

fn gen_u64(rng: &mut Rng) -> u64 {
    match rng.below(8) {
        0 => 0,
        1 => 1,
        2 => 0x7f,
        3 => 0x80,
        4 => u64::MAX,
        5 => 1 << (8 * rng.below(8)),
        6 => rng.below(65536),
        _ => rng.next_u64(),
    }
}

fn gen_ipv6_plain(rng: &mut Rng) -> Ipv6Addr {
    loop {
        let o: [u8; 16] = rng.array();
        let a = Ipv6Addr::from(o);
        // exclude the forms that decode to their IPv4 image by design
        if a.to_ipv4().is_none() || a.is_loopback() {
            return a;
        }
    }
}

/// A well-formed message, in reference form.
fn gen_message(rng: &mut Rng, pool: &[(Enr, Vec<u8>)]) -> RefMessage {
    let id = gen_id(rng);
    match rng.below(6) {
        0 => RefMessage::Ping { id, enr_seq: gen_u64(rng) },
        1 => {
            let ip = if rng.chance(1, 8) {
                // the far ends of the IPv4 range and the well-known special addresses
                rng.pick(&[[0u8, 0, 0, 0], [255, 255, 255, 255], [127, 0, 0, 1], [0, 0, 0, 1], [224, 0, 0, 1], [169, 254, 0, 0]]).to_vec()
            } else if rng.bool() {
                let o: [u8; 4] = rng.array();
                o.to_vec()
            } else if rng.chance(1, 8) {
                Ipv6Addr::LOCALHOST.octets().to_vec()
            } else {
                gen_ipv6_plain(rng).octets().to_vec()
            };
            RefMessage::Pong {
                id,
                enr_seq: gen_u64(rng),
                ip,
                port: if rng.chance(1, 8) { *rng.pick(&[1u16, 65535, 255, 256]) } else { 1 + rng.below(65535) as u16 },
            }
        }
        2 => {
            let n = match rng.below(4) {
                0 => 0,
                1 => 1,
                2 => 3,
                _ => rng.usize(40),
            };
            RefMessage::FindNode {
                id,
                distances: (0..n).map(|_| if rng.chance(1, 6) { 256 } else { rng.below(257) }).collect(),
            }
        }
        3 => {
            let n = match rng.below(4) {
                0 => 0,
                1 => 1,
                _ => rng.usize(5),
            };
            RefMessage::Nodes {
                id,
                total: gen_u64(rng),
                records: (0..n).map(|_| rng.pick(pool).1.clone()).collect(),
            }
        }
        4 => {
            let (a, b) = (rng.usize(60), rng.usize(300));
            RefMessage::TalkReq { id, protocol: rng.bytes(a), request: rng.bytes(b) }
        }
        _ => {
            let a = rng.usize(400);
            RefMessage::TalkResp { id, response: rng.bytes(a) }
        }
    }
}

fn to_impl(m: &RefMessage) -> Message {
    let rid = |id: &Vec<u8>| RequestId(id.clone());
    match m {
        RefMessage::Ping { id, enr_seq } => Message::Request(Request { id: rid(id), body: RequestBody::Ping { enr_seq: *enr_seq } }),
        RefMessage::FindNode { id, distances } => Message::Request(Request { id: rid(id), body: RequestBody::FindNode { distances: distances.clone() } }),
        RefMessage::TalkReq { id, protocol, request } => Message::Request(Request { id: rid(id), body: RequestBody::Talk { protocol: protocol.clone(), request: request.clone() } }),
        RefMessage::Pong { id, enr_seq, ip, port } => {
            let ip: IpAddr = if ip.len() == 4 {
                IpAddr::V4(Ipv4Addr::new(ip[0], ip[1], ip[2], ip[3]))
            } else {
                let o: [u8; 16] = ip.clone().try_into().unwrap();
                IpAddr::V6(Ipv6Addr::from(o))
            };
            Message::Response(Response { id: rid(id), body: ResponseBody::Pong { enr_seq: *enr_seq, ip, port: NonZeroU16::new(*port).unwrap() } })
        }
        RefMessage::Nodes { id, total, records } => Message::Response(Response {
            id: rid(id),
            body: ResponseBody::Nodes { total: *total, nodes: records.iter().map(|r| rlp_ref::decode_record(r).unwrap()).collect() },
        }),
        RefMessage::TalkResp { id, response } => Message::Response(Response { id: rid(id), body: ResponseBody::Talk { response: response.clone() } }),
    }
}

/// The reference view of what the implementation decoded (PONG addresses normalised as the
/// implementation documents: mapped/compatible IPv6 forms become their IPv4 value).
fn from_impl(m: &Message) -> RefMessage {
    match m {
        Message::Request(r) => {
            let id = r.id.0.clone();
            match &r.body {
                RequestBody::Ping { enr_seq } => RefMessage::Ping { id, enr_seq: *enr_seq },
                RequestBody::FindNode { distances } => RefMessage::FindNode { id, distances: distances.clone() },
                RequestBody::Talk { protocol, request } => RefMessage::TalkReq { id, protocol: protocol.clone(), request: request.clone() },
            }
        }
        Message::Response(r) => {
            let id = r.id.0.clone();
            match &r.body {
                ResponseBody::Pong { enr_seq, ip, port } => RefMessage::Pong { id, enr_seq: *enr_seq, ip: rlp_ref::ip_bytes(ip), port: port.get() },
                ResponseBody::Nodes { total, nodes } => RefMessage::Nodes { id, total: *total, records: nodes.iter().map(rlp_ref::encode_record).collect() },
                ResponseBody::Talk { response } => RefMessage::TalkResp { id, response: response.clone() },
            }
        }
    }
}

fn normalise_pong(m: &RefMessage) -> RefMessage {
    if let RefMessage::Pong { id, enr_seq, ip, port } = m {
        if ip.len() == 16 {
            let o: [u8; 16] = ip.clone().try_into().unwrap();
            let a = Ipv6Addr::from(o);
            if !a.is_loopback() {
                if let Some(v4) = a.to_ipv4() {
                    return RefMessage::Pong { id: id.clone(), enr_seq: *enr_seq, ip: v4.octets().to_vec(), port: *port };
                }
            }
        }
    }
    m.clone()
}

fn differential(rep: &mut Report, data: &[u8], origin: &str, wellformed: bool) {
    rep.evaluations += 1;
    rep.count(&format!("decode:{origin}"));
    let r = RefMessage::decode(data);
    let i = probe(|| Message::decode(data).map_err(|e| format!("{e:?}")));
    let replay = |note: &str| json!({"origin": origin, "note": note, "bytes": hx(data), "reference": format!("{:?}", r.as_ref().map(|m| m.type_byte()).map_err(|e| e.clone()))});
    let i = match i {
        Err(()) => {
            rep.violation("C06:decode-panic", format!("Message::decode panicked on {} bytes ({origin})", data.len()), replay("panic"));
            return;
        }
        Ok(i) => i,
    };
    match (&i, &r) {
        (Ok(m), Ok(rm)) => {
            rep.count("both_accept");
            rep.fingerprint(&("acc", origin, rm.type_byte(), data.len() / 32));
            if from_impl(m) != normalise_pong(rm) {
                rep.violation("C06:decode-mismatch", format!("decoded message differs from the reference ({origin})"), replay("fields"));
            }
        }
        (Err(_), Err(why)) => {
            rep.count("both_reject");
            rep.count(&format!("reject:{why:?}"));
            rep.fingerprint(&("rej", origin, format!("{why:?}"), data.first().copied().unwrap_or(0).min(8)));
        }
        (Ok(_), Err(why)) => {
            if why.named_by_statement() {
                rep.violation(&format!("C06:accepts-{why:?}"), format!("implementation accepts bytes the strict reference rejects: {why:?} ({origin})"), replay("impl accepts"));
            } else {
                rep.count(&format!("unclassified:impl-accepts:{why:?}"));
            }
        }
        (Err(e), Ok(_)) => {
            if wellformed {
                rep.violation("C06:rejects-wellformed", format!("implementation rejects a well-formed message: {e} ({origin})"), replay("impl rejects"));
            } else {
                // Not generated as well-formed: recorded only.
                rep.count("unclassified:impl-rejects-ref-accepts");
            }
        }
    }
}

fn check_wellformed(rep: &mut Report, rng: &mut Rng, pool: &[(Enr, Vec<u8>)]) {
    let m = gen_message(rng, pool);
    let want = m.encode();
    rep.evaluations += 1;
    rep.count("encode_roundtrip");
    rep.count(&format!("type:{}", m.type_byte()));
    let im = to_impl(&m);
    match probe(|| im.clone().encode()) {
        Err(()) => rep.violation("C06:encode-panic", "Message::encode panicked".into(), json!({"message": format!("{m:?}")})),
        Ok(bytes) => {
            if bytes != want {
                rep.violation("C06:encode-mismatch", format!("encoded bytes differ from the RLP layout of the specification (type {})", m.type_byte()), json!({"impl": hx(&bytes), "reference": hx(&want)}));
            }
        }
    }
    match probe(|| Message::decode(&want)) {
        Ok(Ok(back)) => {
            if back != im && from_impl(&back) != normalise_pong(&m) {
                rep.violation("C06:roundtrip-mismatch", "decode(encode(m)) != m".into(), json!({"bytes": hx(&want)}));
            }
        }
        Ok(Err(e)) => rep.violation("C06:rejects-wellformed", format!("implementation rejects a well-formed message: {e:?}"), json!({"bytes": hx(&want), "origin": "wellformed"})),
        Err(()) => rep.violation("C06:decode-panic", "Message::decode panicked on a well-formed message".into(), json!({"bytes": hx(&want)})),
    }
    differential(rep, &want, "wellformed", true);
    if rep.want_sample() {
        rep.sample(json!({"type": m.type_byte(), "len": want.len(), "bytes_prefix": hx(&want[..want.len().min(40)])}));
    }
}

/// Structure-aware mutations of a valid encoding.
fn check_mutation(rep: &mut Report, rng: &mut Rng, pool: &[(Enr, Vec<u8>)]) {
    let m = gen_message(rng, pool);
    let mut bytes = m.encode();
    let origin: &str = match rng.below(12) {
        0 => {
            bytes[0] = rng.below(256) as u8;
            "mut:type-byte"
        }
        1 => {
            let n = rng.usize(bytes.len() + 1);
            bytes.truncate(n);
            "mut:truncate"
        }
        2 => {
            let n = 1 + rng.usize(6);
            bytes.extend_from_slice(&rng.bytes(n));
            "mut:trailing"
        }
        3 => {
            // outer length field +-k (short form only, else flip the last length byte)
            if bytes.len() > 1 {
                let delta = *rng.pick(&[-2i16, -1, 1, 2]);
                let b = bytes[1];
                if (0xc0..=0xf7).contains(&b) {
                    bytes[1] = (b as i16 + delta).clamp(0xc0, 0xf7) as u8;
                } else if b >= 0xf8 {
                    let l = (b - 0xf7) as usize;
                    if bytes.len() > 1 + l {
                        bytes[1 + l] = bytes[1 + l].wrapping_add(delta as u8);
                    }
                }
            }
            "mut:outer-length"
        }
        4 => {
            // inner list length (FINDNODE distances / NODES records): find the last list header
            if let Ok(spans) = rlp_ref::list_child_spans(&bytes[1..]) {
                if let Some((s, _)) = spans.last() {
                    let pos = 1 + *s;
                    let b = bytes[pos];
                    let delta = *rng.pick(&[-2i16, -1, 1, 2]);
                    if (0xc0..=0xf7).contains(&b) {
                        bytes[pos] = (b as i16 + delta).clamp(0xc0, 0xf7) as u8;
                    } else if b >= 0xf8 {
                        let l = (b - 0xf7) as usize;
                        bytes[pos + l] = bytes[pos + l].wrapping_add(delta as u8);
                    }
                }
            }
            "mut:inner-length"
        }
        5 => {
            // move an element across a list boundary: [id,total,[r1,r2]] -> [id,total,[r1],r2]
            if let RefMessage::Nodes { id, total, records } = &m {
                if !records.is_empty() {
                    let k = rng.usize(records.len());
                    let mut payload = Vec::new();
                    rlp_ref::encode_bytes(id, &mut payload);
                    rlp_ref::encode_uint(*total, &mut payload);
                    let mut inner = Vec::new();
                    for r in &records[..k] {
                        inner.extend_from_slice(r);
                    }
                    rlp_ref::encode_list_payload(&inner, &mut payload);
                    for r in &records[k..] {
                        payload.extend_from_slice(r);
                    }
                    bytes = vec![4];
                    rlp_ref::encode_list_payload(&payload, &mut bytes);
                }
            }
            "mut:element-across-boundary"
        }
        6 => {
            // element insertion / duplication / removal at top level
            if let Ok(spans) = rlp_ref::list_child_spans(&bytes[1..]) {
                if !spans.is_empty() {
                    let body = bytes[1..].to_vec();
                    let hdr_end = spans[0].0;
                    let mut elems: Vec<Vec<u8>> = spans.iter().map(|(s, e)| body[*s..*e].to_vec()).collect();
                    let _ = hdr_end;
                    let k = rng.usize(elems.len());
                    match rng.below(3) {
                        0 => {
                            elems.remove(k);
                        }
                        1 => {
                            let e = elems[k].clone();
                            elems.insert(k, e);
                        }
                        _ => {
                            let mut e = Vec::new();
                            rlp_ref::encode_bytes(&rng.bytes(3), &mut e);
                            elems.insert(k, e);
                        }
                    }
                    let payload: Vec<u8> = elems.concat();
                    let t = bytes[0];
                    bytes = vec![t];
                    rlp_ref::encode_list_payload(&payload, &mut bytes);
                }
            }
            "mut:element-insert-remove"
        }
        7 => {
            // id longer than 8 bytes
            let n = 9 + rng.usize(4);
            let long = rng.bytes(n);
            let mm = match m.clone() {
                RefMessage::Ping { enr_seq, .. } => RefMessage::Ping { id: long, enr_seq },
                RefMessage::Pong { enr_seq, ip, port, .. } => RefMessage::Pong { id: long, enr_seq, ip, port },
                RefMessage::FindNode { distances, .. } => RefMessage::FindNode { id: long, distances },
                RefMessage::Nodes { total, records, .. } => RefMessage::Nodes { id: long, total, records },
                RefMessage::TalkReq { protocol, request, .. } => RefMessage::TalkReq { id: long, protocol, request },
                RefMessage::TalkResp { response, .. } => RefMessage::TalkResp { id: long, response },
            };
            bytes = mm.encode();
            "mut:long-id"
        }
        8 => {
            let id = gen_id(rng);
            bytes = match rng.below(3) {
                0 => RefMessage::FindNode { id, distances: vec![rng.below(256), 257 + rng.below(1000), 3] }.encode(),
                1 => RefMessage::Pong { id, enr_seq: 1, ip: vec![1, 2, 3, 4], port: 0 }.encode(),
                _ => {
                    let n = *rng.pick(&[0usize, 1, 3, 5, 8, 15, 17, 32]);
                    RefMessage::Pong { id, enr_seq: 1, ip: rng.bytes(n), port: 30303 }.encode()
                }
            };
            "mut:field-range"
        }
        9 => {
            // corrupt a record inside NODES
            if let RefMessage::Nodes { id, total, records } = &m {
                if !records.is_empty() {
                    let mut recs = records.clone();
                    let k = rng.usize(recs.len());
                    let n = recs[k].len();
                    let i = 2 + rng.usize(n - 2);
                    recs[k][i] ^= 1 << rng.below(8);
                    bytes = RefMessage::Nodes { id: id.clone(), total: *total, records: recs }.encode();
                }
            }
            "mut:record-bitflip"
        }
        10 => {
            // an item of the record list that is a well-formed RLP list but no record: too large
            // for a record (its own header says 301..700 bytes), or small junk
            let size = if rng.chance(2, 3) { 301 + rng.usize(400) } else { 1 + rng.usize(80) };
            let mut payload = Vec::new();
            while payload.len() < size {
                let n = 1 + rng.usize(40.min(size - payload.len()));
                let chunk = rng.bytes(n);
                rlp_ref::encode_bytes(&chunk, &mut payload);
            }
            let mut junk = Vec::new();
            match rng.below(8) {
                // ... or no list at all: a single byte that is its own encoding, the empty string,
                // a short or a long byte string
                0 | 1 => junk.push(rng.below(0x80) as u8),
                2 => junk.push(0x80),
                3 => {
                    let n = 1 + rng.usize(60);
                    let b = rng.bytes(n);
                    rlp_ref::encode_bytes(&b, &mut junk);
                }
                _ => rlp_ref::encode_list_payload(&payload, &mut junk),
            }
            let (id, total, mut recs) = match &m {
                RefMessage::Nodes { id, total, records } => (id.clone(), *total, records.clone()),
                other => (other.id().to_vec(), 1, vec![rng.pick(pool).1.clone()]),
            };
            // keep the message within a datagram: few genuine records around the junk item
            recs.truncate(rng.usize(3));
            let at = rng.usize(recs.len() + 1);
            recs.insert(at, junk);
            bytes = RefMessage::Nodes { id, total, records: recs }.encode();
            "mut:record-list-item-not-a-record"
        }
        _ => {
            let i = rng.usize(bytes.len());
            bytes[i] ^= 1 << rng.below(8);
            "mut:bitflip"
        }
    };
    differential(rep, &bytes, origin, false);
}

pub fn run(p: &Params) -> Report {
    let mut rep = Report::new("C06");
    crate::util::quiet_panics_inside_probes();
    if let Some(r) = &p.replay {
        let data = hex::decode(r["replay"]["bytes"].as_str().unwrap_or("")).unwrap_or_default();
        differential(&mut rep, &data, "replay", false);
        return rep;
    }
    let mut rng = Rng::new(p.shard_seed(6));
    let pool: Vec<(Enr, Vec<u8>)> = record_pool(&mut rng, 40)
        .into_iter()
        .map(|e| {
            let b = rlp_ref::encode_record(&e);
            (e, b)
        })
        .collect();
    if p.shard == 0 {
        // every truncation of 40 sample messages, every type byte on 6 templates
        for _ in 0..40 {
            let bytes = gen_message(&mut rng, &pool).encode();
            for n in 0..bytes.len() {
                differential(&mut rep, &bytes[..n], "all-truncations", false);
            }
        }
        for _ in 0..12 {
            let mut bytes = gen_message(&mut rng, &pool).encode();
            for t in 0..=255u8 {
                bytes[0] = t;
                differential(&mut rep, &bytes, "all-type-bytes", false);
            }
        }
        rep.extra.insert("exhaustive_subspaces".into(), json!(["every truncation point of 40 messages", "all 256 type bytes on 12 templates"]));
    }
    let n = p.budget(600_000, 40_000_000);
    for i in 0..n {
        match i % 4 {
            0 => check_wellformed(&mut rep, &mut rng, &pool),
            1 => {
                let len = rng.usize(120);
                let mut data = rng.bytes(len);
                if !data.is_empty() && rng.bool() {
                    data[0] = 1 + rng.below(6) as u8;
                }
                differential(&mut rep, &data, "random-bytes", false);
            }
            _ => check_mutation(&mut rep, &mut rng, &pool),
        }
    }
    rep
}
