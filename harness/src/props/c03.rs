//! C03 — handshakes answer only fresh, outstanding challenges.
//!
//! Workload: the generic R1 schedules plus a *replayer* that re-injects recorded handshake and
//! WHOAREYOU datagrams at later points of the exchange (before/after completion, after re-keying,
//! after expiry, while a new challenge is outstanding), from the original or another address.
//! Because one datagram reaches the handler per quiescent point, every effect is attributed to
//! the datagram injected last.
//!
//! Ledger (offline over the trace):
//!  (a) a handshake is *accepted* (Established-incoming / UnverifiableEnr / its embedded request
//!      delivered) only if the challenge it answers was sent to exactly that (id, address), is
//!      outstanding (not yet consumed, armed less than request_timeout ago), and
//!  (b) acceptance consumes it: no second acceptance against one challenge;
//!  (c) the victim emits a handshake only in reaction to a WHOAREYOU that echoes the nonce of the
//!      current packet of a request in flight to the address the WHOAREYOU came from;
//!  (d) at most one handshake per request; a WHOAREYOU for a request whose handshake was already
//!      sent makes that request fail.

use super::wire::{run_workload, Workload};
use crate::rig::engine::{show_ev, Engine, Ev, InClass, OutClass, TraceEv};
use crate::util::{hx, Params, Report, Rng};
use discv5::verif::{ConnectionDirection, HandlerOut, ResponseBody};
use serde_json::{json, Value};
use std::collections::HashMap;
use std::net::SocketAddr;
use std::time::Duration;

struct Challenge {
    addr: SocketAddr,
    peer: usize,
    armed: Duration,
    consumed: bool,
}

struct ReqState {
    addr: SocketAddr,
    /// nonce of the packet currently representing the request on the wire
    current: Option<[u8; 12]>,
    handshakes: Vec<[u8; 12]>,
    terminal: bool,
    remaining: Option<u64>,
}

fn base(c: &InClass) -> &InClass {
    match c {
        InClass::Replay { of, .. } => base(of),
        other => other,
    }
}

fn tail(trace: &[TraceEv], idx: usize) -> Value {
    let start = idx.saturating_sub(70);
    Value::Array(
        trace[start..(idx + 12).min(trace.len())]
            .iter()
            .filter(|t| !matches!(t.ev, Ev::Exemptions(_)))
            .map(|t| json!({"t_ms": t.at.as_millis() as u64, "ev": show_ev(&t.ev)}))
            .collect(),
    )
}

pub fn check_c03(e: &Engine, w: &Workload, seed: u64, rep: &mut Report) -> Vec<&'static str> {
    let trace = &e.trace;
    let timeout = e.rig.cfg_request_timeout;
    let retries = e.rig.cfg_request_retries as u32;
    let slack = Duration::from_millis(2);
    let mut features: Vec<&'static str> = Vec::new();
    // challenge-data -> challenge
    let mut challenges: HashMap<Vec<u8>, Challenge> = HashMap::new();
    let mut reqs: HashMap<Vec<u8>, ReqState> = HashMap::new();
    // random packets: nonce -> (addr, last transmission, superseded)
    let mut randoms: HashMap<[u8; 12], (SocketAddr, Duration, bool)> = HashMap::new();
    // nonce -> time of the latest WHOAREYOU echoing it that came from a foreign socket (timer restart)
    let mut refreshed: HashMap<[u8; 12], Duration> = HashMap::new();
    // the input being processed: (trace index, from, peer, class)
    let mut cur: Option<(usize, SocketAddr, Option<usize>, InClass)> = None;
    let witness = |what: &str, idx: usize| json!({"scenario_seed": seed.to_string(), "what": what, "workload": w.json(), "trace": tail(trace, idx)});

    let mut seen_handshake_nonces: std::collections::HashSet<[u8; 12]> = std::collections::HashSet::new();
    // second-WHOAREYOU expectation: (request id, index of the injected WHOAREYOU)
    let mut expect_fail: Option<(Vec<u8>, usize)> = None;
    for (idx, t) in trace.iter().enumerate() {
        // effects are attributed to the last datagram only within the same quiescent point
        if let Some((i_idx, ..)) = &cur {
            if t.at > trace[*i_idx].at + Duration::from_millis(1) {
                cur = None;
            }
        }
        if matches!(t.ev, Ev::Injected { .. } | Ev::AnswerWru { .. } | Ev::Submit { .. } | Ev::AppResponse { .. }) || cur.is_none() {
            if let Some((rid, i_idx)) = expect_fail.take() {
                rep.violation("C03:second-whoareyou-did-not-fail-request", format!("a second WHOAREYOU for request {} (handshake already sent) did not fail the request", hx(&rid)), witness("d", i_idx));
            }
        }
        match &t.ev {
            Ev::Submit { id, peer, .. } => {
                reqs.insert(id.clone(), ReqState { addr: e.peers[*peer].sim.addr(), current: None, handshakes: vec![], terminal: false, remaining: None });
            }
            Ev::AnswerWru { .. } | Ev::AppResponse { .. } => {
                // an application input: effects that follow are not caused by the last datagram
                cur = None;
            }
            Ev::Injected { from, peer, class, .. } => {
                cur = Some((idx, *from, *peer, class.clone()));
                if matches!(base(class), InClass::Handshake { .. } | InClass::Crafted(_)) {
                    // A handshake that fails the signature check re-inserts the challenge and
                    // restarts its timer: the code's own (observable) notion of "outstanding".
                    for ch in challenges.values_mut() {
                        if ch.addr == *from && Some(ch.peer) == *peer && !ch.consumed && t.at <= ch.armed + timeout + slack {
                            ch.armed = t.at;
                        }
                    }
                }
                if let Some(n) = super::wire::foreign_whoareyou(class) {
                    // the packet under that nonce is put back with a fresh timer
                    if let Some(r) = randoms.get_mut(&n) {
                        r.1 = t.at;
                    }
                    refreshed.insert(n, t.at);
                }
                if let InClass::WhoAreYou { request_nonce } = base(class) {
                    // a WHOAREYOU for the handshake packet of a live request must fail that request
                    if let Some((rid, _)) = reqs.iter().find(|(_, r)| r.addr == *from && !r.terminal && r.current == Some(*request_nonce) && r.handshakes.contains(request_nonce)) {
                        expect_fail = Some((rid.clone(), idx));
                        rep.count("second_whoareyou_probes");
                    }
                }
                match base(class) {
                    InClass::Handshake { .. } => rep.count(if matches!(class, InClass::Replay { .. }) { "replayed_handshakes_injected" } else { "handshakes_injected" }),
                    InClass::WhoAreYou { .. } => rep.count(if matches!(class, InClass::Replay { .. }) { "replayed_whoareyous_injected" } else { "whoareyous_injected" }),
                    _ => {}
                }
            }
            Ev::Sent { to, peer: Some(p), class, .. } => match class {
                OutClass::WhoAreYou { challenge_data, .. } => {
                    challenges.insert(challenge_data.clone(), Challenge { addr: *to, peer: *p, armed: t.at, consumed: false });
                }
                OutClass::Random { nonce } => {
                    let r = randoms.entry(*nonce).or_insert((*to, t.at, false));
                    r.1 = t.at;
                }
                OutClass::Message { nonce, msg: Some(m), .. } if m.is_request() => {
                    if let Some(r) = reqs.get_mut(m.id()) {
                        r.current = Some(*nonce);
                    }
                }
                OutClass::Handshake { nonce, msg, .. } => {
                    // (c): why did the victim send a handshake?
                    rep.count("victim_handshakes");
                    let rid = msg.as_ref().filter(|m| m.is_request()).map(|m| m.id().to_vec());
                    let retransmission = !seen_handshake_nonces.insert(*nonce);
                    if !retransmission {
                        match &cur {
                            Some((i_idx, from, _, c)) => match base(c) {
                                InClass::WhoAreYou { request_nonce } => {
                                    if from != to {
                                        rep.violation("C03:handshake-to-other-address", "the victim answered a WHOAREYOU with a handshake sent to another address".into(), witness("c", *i_idx));
                                    }
                                    // was the echoed nonce the current packet of a live request to that address?
                                    let by_req = reqs.values().any(|r| r.addr == *from && !r.terminal && r.current == Some(*request_nonce));
                                    let by_random = randoms.get(request_nonce).map(|(a, last, superseded)| a == from && !superseded && t.at <= *last + timeout * (retries + 1) + slack).unwrap_or(false);
                                    // handler-internal requests (ENR requests) are not in `reqs`: accept a nonce of any
                                    // message the victim sent to that address recently that carried a request we do not own
                                    let by_internal = trace[..idx].iter().rev().take_while(|u| u.at.max(refreshed.get(request_nonce).copied().unwrap_or_default()) + timeout * (retries + 1) + slack >= t.at).any(|u| matches!(&u.ev, Ev::Sent { to: a, class: OutClass::Message { nonce: n, msg: Some(m), .. } | OutClass::Handshake { nonce: n, msg: Some(m), .. }, .. } if a == from && n == request_nonce && m.is_request() && !reqs.contains_key(m.id())));
                                    if !(by_req || by_random || by_internal) {
                                        let sig = if matches!(c, InClass::Replay { same_source: false, .. }) { "C03:whoareyou-from-wrong-address-answered" } else { "C03:stale-whoareyou-answered" };
                                        rep.violation(sig, format!("the victim sent a handshake in reaction to a WHOAREYOU echoing {} which is not the nonce of a request in flight to {from}", hx(&request_nonce[..4])), witness("c", *i_idx));
                                    } else {
                                        rep.count("whoareyou_legitimately_answered");
                                    }
                                    if let Some(r) = randoms.get_mut(request_nonce) {
                                        r.2 = true;
                                    }
                                }
                                _ => rep.violation("C03:unsolicited-handshake", "the victim emitted a handshake that does not follow a WHOAREYOU".into(), witness("c", *i_idx)),
                            },
                            None => rep.violation("C03:unsolicited-handshake", "the victim emitted a handshake without any datagram having been delivered".into(), witness("c", idx)),
                        }
                    }
                    if let Some(rid) = rid {
                        if let Some(r) = reqs.get_mut(&rid) {
                            r.current = Some(*nonce);
                            if !r.handshakes.contains(nonce) {
                                r.handshakes.push(*nonce);
                                if r.handshakes.len() > 1 {
                                    if !features.contains(&"second-handshake") {
                                        features.push("second-handshake");
                                    }
                                    rep.violation("C03:two-handshakes-for-one-request", format!("request {} was answered with {} different handshakes", hx(&rid), r.handshakes.len()), witness("d", idx));
                                }
                            }
                        }
                    }
                }
                _ => {}
            },
            Ev::Out(out) => {
                // bookkeeping of requests
                match out {
                    HandlerOut::Response(_, r) => {
                        if let Some(q) = reqs.get_mut(&r.id.0) {
                            let terminal = match &r.body {
                                ResponseBody::Nodes { total, .. } if *total > 1 => match q.remaining {
                                    None => {
                                        q.remaining = Some(total - 1);
                                        false
                                    }
                                    Some(rem) => {
                                        q.remaining = Some(rem.saturating_sub(1));
                                        rem <= 1
                                    }
                                },
                                _ => true,
                            };
                            if terminal {
                                q.terminal = true;
                            }
                        }
                    }
                    HandlerOut::RequestFailed(id, err) => {
                        if let Some(q) = reqs.get_mut(&id.0) {
                            q.terminal = true;
                        }
                        // a WHOAREYOU from another socket than the one the request went to is not
                        // acted on: in particular it cannot fail the request the way a second
                        // WHOAREYOU from the peer does
                        if let Some((i_idx, _, _, c)) = &cur {
                            if super::wire::foreign_whoareyou(c).is_some() {
                                rep.count("foreign_whoareyou_steps_with_a_failure");
                                if matches!(err, discv5::RequestError::InvalidRemotePacket) {
                                    rep.violation("C03:whoareyou-from-wrong-address-acted-on", format!("request {} failed as after a second WHOAREYOU, in reaction to a WHOAREYOU that came from another socket than the request went to", hx(&id.0)), witness("d", *i_idx));
                                }
                            }
                        }
                        if matches!(&expect_fail, Some((rid, _)) if *rid == id.0) {
                            expect_fail = None;
                            rep.count("second_whoareyou_failed_request");
                            if !features.contains(&"second-whoareyou") {
                                features.push("second-whoareyou");
                            }
                        }
                    }
                    _ => {}
                }
                // (a)/(b): acceptance effects
                let accepted_for: Option<(SocketAddr, [u8; 32])> = match out {
                    HandlerOut::Established(enr, addr, ConnectionDirection::Incoming) => Some((*addr, enr.node_id().raw())),
                    HandlerOut::UnverifiableEnr { socket, node_id, .. } => Some((*socket, node_id.raw())),
                    _ => None,
                };
                if let (Some((addr, id)), Some((i_idx, from, _, c))) = (accepted_for, &cur) {
                    if let InClass::Handshake { answers, honest, .. } = base(c) {
                        // Established-incoming right after an injected handshake: an acceptance
                        rep.count("handshake_acceptances");
                        let replayed = matches!(c, InClass::Replay { .. });
                        let verdict: Result<(), &'static str> = match challenges.get_mut(answers) {
                            None => Err("C03:handshake-without-challenge-accepted"),
                            Some(ch) => {
                                let near_expiry = t.at + slack >= ch.armed + timeout && t.at <= ch.armed + timeout + slack;
                                if ch.consumed {
                                    Err("C03:replayed-handshake-accepted")
                                } else if ch.addr != addr || *from != ch.addr || e.peers[ch.peer].sim.id() != id {
                                    Err("C03:handshake-for-other-address-accepted")
                                } else if t.at > ch.armed + timeout + slack {
                                    Err("C03:handshake-after-expiry-accepted")
                                } else {
                                    if near_expiry {
                                        rep.count("acceptance_near_expiry_skipped");
                                    }
                                    ch.consumed = true;
                                    Ok(())
                                }
                            }
                        };
                        if replayed && !features.contains(&"replay-accept-probe") {
                            features.push("replay-accept-probe");
                        }
                        if let Err(sig) = verdict {
                            rep.violation(sig, format!("a handshake (honest build: {honest}, replayed: {replayed}) from {from} was accepted although the challenge it answers is not outstanding for that node and address"), witness("a", *i_idx));
                        }
                    }
                }
                // embedded request of a *replayed* handshake delivered again = acceptance
                if let (HandlerOut::Request(na, rq), Some((i_idx, from, _, c @ InClass::Replay { .. }))) = (out, &cur) {
                    if let InClass::Handshake { msg, .. } = base(c) {
                        if msg.id() == &rq.id.0[..] && na.socket_addr == *from {
                            rep.violation("C03:replayed-handshake-accepted", "the request embedded in a replayed handshake was delivered again".into(), witness("a", *i_idx));
                        }
                    }
                }
            }
            _ => {}
        }
    }
    if let Some((rid, i_idx)) = expect_fail.take() {
        // only if the run did not end right after the injection
        if trace[i_idx].at + Duration::from_millis(2) < trace.last().unwrap().at {
            rep.violation("C03:second-whoareyou-did-not-fail-request", format!("a second WHOAREYOU for request {} (handshake already sent) did not fail the request", hx(&rid)), witness("d", i_idx));
        }
    }
    features
}

pub fn scenario(seed: u64, rep: &mut Report) {
    let mut rng = Rng::new(seed);
    let mut w = Workload::random(&mut rng);
    w.replays = true;
    w.second_whoareyou = rng.chance(2, 3);
    w.lose_sessions = rng.chance(2, 3);
    w.late_wru = rng.chance(2, 3);
    w.steps = 20 + rng.usize(60);
    w.forged = rng.chance(1, 4);
    let e = run_workload(seed, &w);
    if std::env::var("DV5_TRACE").is_ok() {
        println!("workload {}", w.json());
        for ev in e.dump_trace(1_000_000).as_array().unwrap() {
            println!("{:>7} {}", ev["t_ms"], ev["ev"].as_str().unwrap());
        }
    }
    rep.evaluations += 1;
    let mut f = check_c03(&e, &w, seed, rep);
    let has = |g: &dyn Fn(&Ev) -> bool| e.trace.iter().any(|t| g(&t.ev));
    if has(&|ev| matches!(ev, Ev::Injected { class: InClass::Replay { same_source: false, .. }, .. })) {
        f.push("replay-other-source");
    }
    if has(&|ev| matches!(ev, Ev::Injected { class: InClass::Replay { same_source: true, .. }, .. })) {
        f.push("replay-same-source");
    }
    if has(&|ev| matches!(ev, Ev::PeerLostSession { .. })) {
        f.push("re-key");
    }
    f.sort();
    f.dedup();
    if !f.is_empty() {
        rep.fingerprint(&(f.clone(), w.npeers, w.retries));
    }
    if rep.want_sample() && f.len() >= 3 {
        rep.sample(json!({"scenario_seed": seed.to_string(), "workload": w.json(), "features": f}));
    }
}

pub fn run(p: &Params) -> Report {
    let mut rep = Report::new("C03");
    if let Some(r) = &p.replay {
        if super::sys::replay(r, &mut rep) {
            return rep;
        }
    }
    if let Some(r) = &p.replay {
        let seed: u64 = r["replay"]["scenario_seed"].as_str().unwrap().parse().unwrap();
        scenario(seed, &mut rep);
        return rep;
    }
    let n = p.budget(12_000, 500_000);
    for i in 0..n {
        let seed = p.shard_seed(0x03_0000 + i);
        crate::util::guarded(&mut rep, seed, |rep| scenario(seed, rep));
    }
    // full stack: a network that tampers with and replays datagrams around an unmodified Discv5
    super::sys::run_mixed(p, super::sys::Focus::C03, 0x5C03_0000, 1600, 100_000, &mut rep);
    rep
}
