//! Micro-workloads for `cargo +nightly miri run` (secondary net, DESIGN section 6). No runtime,
//! no signing: a few dozen operations each, because Miri costs seconds per routing-table
//! operation. They print `MIRI-OK ops=<n>`; Miri itself reports undefined behaviour.

use crate::util::Rng;
use discv5::enr::NodeId;
use discv5::kbucket::KBucketsTable;
use discv5::packet::ProtocolIdentity;
use discv5::verif::{packet_decode, LruTimeCache, Message};
use std::time::Duration;

pub fn codec(seed: u64) {
    let mut rng = Rng::new(seed);
    let mut ops = 0;
    for _ in 0..40 {
        let id: [u8; 32] = rng.array();
        let len = rng.usize(200);
        let data = rng.bytes(len);
        let _ = packet_decode(&NodeId::new(&id), ProtocolIdentity::default(), &data);
        let mlen = 1 + rng.usize(60);
        let mut m = rng.bytes(mlen);
        m[0] = 1 + rng.below(6) as u8;
        let _ = Message::decode(&m);
        ops += 2;
    }
    // a few well-formed messages through the reference encoder
    use crate::peer::rlp_ref::RefMessage;
    for k in 0..10u64 {
        let m = RefMessage::FindNode { id: vec![k as u8], distances: vec![k, 256, 0] }.encode();
        let d = Message::decode(&m).expect("well-formed");
        let _ = d.encode();
        ops += 1;
    }
    println!("MIRI-OK ops={ops}");
}

pub fn table(seed: u64) {
    let mut rng = Rng::new(seed);
    let local: [u8; 32] = rng.array();
    let mut t: KBucketsTable<NodeId, u64> = KBucketsTable::new(NodeId::new(&local).into(), Duration::ZERO, 3, None, None);
    let mut ids = Vec::new();
    for _ in 0..24 {
        let d = 256 - rng.below(2);
        ids.push(super::kb::id_at_distance(&mut rng, &local, d));
    }
    let mut ops = 0;
    for step in 0..40u64 {
        let id = *rng.pick(&ids);
        let key = super::kb::key(&id);
        match rng.below(4) {
            0 | 1 => {
                let _ = t.insert_or_update(&key, step, super::kb::status(rng.bool(), rng.bool()));
            }
            2 => {
                let _ = t.update_node_status(&key, if rng.bool() { discv5::ConnectionState::Connected } else { discv5::ConnectionState::Disconnected }, None);
            }
            _ => {
                t.remove(&key);
            }
        }
        ops += 1;
    }
    let n = t.iter().count();
    let _ = t.nodes_by_distances(&[256, 255], 16).len();
    println!("MIRI-OK ops={} entries={n}", ops + 2);
}

pub fn cache(seed: u64) {
    let mut rng = Rng::new(seed);
    let mut c: LruTimeCache<u32, u64> = LruTimeCache::new(Duration::from_millis(5), Some(3));
    let mut ops = 0;
    for step in 0..60u64 {
        let k = rng.below(6) as u32;
        match rng.below(6) {
            0 | 1 => c.insert(k, step),
            2 => {
                let _ = c.get(&k);
            }
            3 => {
                let _ = c.get_mut(&k).map(|v| *v += 1);
            }
            4 => {
                let _ = c.remove(&k);
            }
            _ => {
                let _ = c.remove_expired_values();
            }
        }
        let _ = c.peek(&k);
        assert!(c.len() <= 3);
        ops += 1;
    }
    println!("MIRI-OK ops={ops}");
}
