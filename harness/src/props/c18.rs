//! C18 — inbound rate limiting and ban lists.
//!
//! (a) `Limiter` with explicit time against a token bucket in exact integer arithmetic:
//!     identical decisions for quotas with `period % burst == 0`; for every quota the pairwise
//!     bound `(j-i+1)*t <= tau + (a_j - a_i)` over accepted arrivals (burst + rate * window in the
//!     limiter's own units), conforming traffic never refused, and a twin limiter with interleaved
//!     `prune` calls gives the identical decision sequence.
//! (b) `Filter` (two-stage) against the decision procedure of the statement, with hour-long
//!     periods so that nothing is replenished during a run.

use crate::util::{Params, Report, Rng};
use discv5::enr::NodeId;
use discv5::verif::{ban_list_set, ban_list_snapshot, Filter, FilterConfig, Limiter};
use discv5::{NodeAddress, PermitBanList, RateLimiterBuilder};
use serde_json::{json, Value};
use std::collections::HashMap;
use std::net::{IpAddr, Ipv4Addr, SocketAddr};
use std::time::{Duration, Instant};

/// Exact token bucket: `credit` in nanoseconds of accumulated time, capacity `tau`, one token
/// costs `t`. Equivalent to GCRA for tau = burst * t.
struct Bucket {
    tau: u128,
    t: u128,
    state: HashMap<u32, (u128, u128)>, // key -> (credit, last time)
}

impl Bucket {
    fn allows(&mut self, now: u128, key: u32) -> bool {
        let (credit, last) = self.state.get(&key).copied().unwrap_or((self.tau, now));
        let credit = (credit + (now - last)).min(self.tau);
        if credit >= self.t {
            self.state.insert(key, (credit - self.t, now));
            true
        } else {
            self.state.insert(key, (credit, now));
            false
        }
    }
}

/// (c) On the real receive path (wire rig): a sender that exceeds its quota is banned, and the ban
/// is still in force after the handler's periodic purge of the ban list has run - as long as the
/// configured duration has not passed on the clock the ban is measured with (the wall clock; the
/// purge runs on the rig's virtual clock, so hundreds of purge periods pass within milliseconds).
pub fn scenario_ban_purge(seed: u64, rep: &mut Report) {
    use crate::rig::r1::{runtime, v4, RigConfig, WireRig};
    let rt = runtime(seed);
    rt.block_on(async {
        let mut rng = Rng::new(seed ^ 0xBA2);
        let hour = Duration::from_secs(3600);
        let ban = Duration::from_secs(*rng.pick(&[20u64, 120, 299, 301, 600, 3600]));
        let per_ip = rng.bool();
        let limiter = if per_ip {
            RateLimiterBuilder::new().total_n_every(1000, hour).ip_n_every(2, hour).node_n_every(1000, hour).build()
        } else {
            RateLimiterBuilder::new().total_n_every(1000, hour).ip_n_every(1000, hour).node_n_every(2, hour).build()
        };
        let cfg = RigConfig { packet_filter: true, rate_limiter: Some(limiter.expect("quota")), ban_duration: Some(Some(ban)), ..Default::default() };
        let rig = WireRig::start(&mut rng, cfg).await;
        let vid = rig.victim_id();
        rep.evaluations += 1;
        rep.count("ban_purge_scenarios");
        let from = v4(10, 4, 4, 1 + rng.below(200) as u8, 9400);
        let src: [u8; 32] = rng.array();
        // readable message packets of one unknown sender: each counts against its IP and its node id
        for _ in 0..(3 + rng.usize(3)) {
            let n = 20 + rng.usize(30);
            let p = crate::peer::codec_ref::RawPacket::new(rng.array(), crate::peer::codec_ref::FLAG_MESSAGE, rng.array(), crate::peer::codec_ref::authdata_message(&src), rng.bytes(n));
            rig.inject(from, p.encode(&vid));
            rig.settle().await;
        }
        let t_ban = Instant::now();
        let listed = |l: &PermitBanList| if per_ip { l.ban_ips.get(&from.ip()).copied() } else { l.ban_nodes.get(&NodeId::new(&src)).copied() };
        let Some(until) = listed(&ban_list_snapshot()) else {
            rep.violation("C18:excess-not-banned", format!("a sender exceeded its {} quota of 2 per hour and is not on the ban list", if per_ip { "per-IP" } else { "per-node" }), json!({"scenario_seed": seed.to_string(), "kind": "ban-purge", "per_ip": per_ip}));
            return;
        };
        if let Some(until) = until {
            if until + Duration::from_millis(50) < t_ban + ban {
                rep.violation("C18:ban-shorter-than-configured", format!("the ban entry runs out {:?} after the ban, configured {ban:?}", until.saturating_duration_since(t_ban)), json!({"scenario_seed": seed.to_string(), "kind": "ban-purge", "per_ip": per_ip}));
            }
        }
        // the periodic purge runs (every 300 s of the rig's clock), once or several times
        let periods = 1 + rng.below(4);
        rig.sleep(Duration::from_secs(300 * periods + rng.below(200))).await;
        rig.settle().await;
        let elapsed = t_ban.elapsed();
        rep.count("ban_purges_observed");
        rep.fingerprint(&("ban-purge", per_ip, ban.as_secs(), periods));
        if elapsed < ban && listed(&ban_list_snapshot()).is_none() {
            rep.violation("C18:ban-lifted-before-duration", format!("a ban of {ban:?} was lifted {elapsed:?} after it was imposed (by the periodic purge of the ban list)"), json!({"scenario_seed": seed.to_string(), "kind": "ban-purge", "per_ip": per_ip, "ban_s": ban.as_secs()}));
        }
        let _ = rig.take_events();
        let _ = rig.take_sent();
    });
}

fn limiter_scenario(seed: u64, rep: &mut Report) {
    let mut rng = Rng::new(seed);
    let burst = match rng.below(12) {
        0..=2 => 1,
        3..=5 => 1 + rng.below(4),
        // "practically unlimited": more tokens than 32 bits can count
        6 => (1u64 << 32) + rng.below(6),
        _ => 1 + rng.below(20),
    };
    let divisible = rng.chance(2, 3);
    let period_ns: u64 = if divisible {
        burst * (1 + rng.below(1_000_000))
    } else {
        1 + rng.below(50_000_000)
    };
    let Ok(mut lim) = Limiter::<u32>::from_quota(burst, Duration::from_nanos(period_ns)) else {
        return;
    };
    let Ok(mut twin) = Limiter::<u32>::from_quota(burst, Duration::from_nanos(period_ns)) else {
        return;
    };
    let t = period_ns / burst; // the limiter's own token interval (truncated)
    if t == 0 {
        return; // degenerate quota: more tokens than nanoseconds
    }
    let exact = period_ns % burst == 0;
    let mut reference = Bucket { tau: period_ns as u128, t: t as u128, state: HashMap::new() };
    // conforming-traffic reference in configured units: 1 token = period units, refill burst/ns
    let mut conf_credit: HashMap<u32, (u128, u128, bool)> = HashMap::new(); // key -> (credit, last, still conforming)
    let cap = burst as u128 * period_ns as u128;
    let nkeys = 1 + rng.below(4) as u32;
    let mut now: u64 = rng.below(1000);
    let mut accepted: HashMap<u32, Vec<u64>> = HashMap::new();
    let mut log: Vec<Value> = Vec::new();
    let n = 40 + rng.usize(160);
    let mut refusals = 0u64;
    let mut boundary = 0u64;
    let mut prunes = 0u64;
    let mut floods = 0u64;
    let crowd: u32 = if rng.chance(1, 8) { *rng.pick(&[50u32, 3000, 9000, 20000, 70000]) } else { 0 };
    for _ in 0..n {
        // inter-arrival: burst (0), exact token boundary, boundary +- 1ns, long gap, random
        let gap = match rng.below(8) {
            0 | 1 => 0,
            2 => {
                boundary += 1;
                t
            }
            3 => {
                boundary += 1;
                t.saturating_sub(1)
            }
            4 => {
                boundary += 1;
                t + 1
            }
            5 => period_ns + rng.below(period_ns.max(1)),
            _ => rng.below(2 * t + 2),
        };
        now += gap;
        let key = rng.below(nkeys as u64) as u32;
        if crowd > 0 && rng.chance(1, 40) {
            // a flood from many other senders (one packet each) fills the limiter's table; the
            // twin is pruned right after it
            for k in 0..crowd {
                let other = 1000 + k;
                lim.allows(Duration::from_nanos(now), &other, 1);
                twin.allows(Duration::from_nanos(now), &other, 1);
            }
            twin.prune(Duration::from_nanos(now));
            prunes += 1;
            floods += 1;
        }
        if rng.chance(1, 6) {
            // prune the twin at an arbitrary instant not after `now`
            twin.prune(Duration::from_nanos(now - rng.below(gap + 1)));
            prunes += 1;
        }
        let got = lim.allows(Duration::from_nanos(now), &key, 1);
        let got_twin = twin.allows(Duration::from_nanos(now), &key, 1);
        let want = reference.allows(now as u128, key);
        log.push(json!({"t_ns": now, "key": key, "impl": got, "reference": want}));
        let witness = |what: &str, log: &Vec<Value>| json!({"scenario_seed": seed.to_string(), "what": what, "burst": burst, "period_ns": period_ns, "token_interval_ns": t, "arrivals": log.iter().rev().take(30).rev().cloned().collect::<Vec<_>>()});
        if got != got_twin {
            rep.violation("C18:prune-changes-decision", "a limiter with interleaved prune calls decided differently".into(), witness("prune", &log));
        }
        if exact && got != want {
            rep.violation(
                if got { "C18:limiter-too-permissive" } else { "C18:limiter-refuses-conforming" },
                format!("limiter decision {got} differs from the exact token bucket (burst {burst}, period {period_ns} ns)"),
                witness("exact", &log),
            );
        }
        // conforming traffic in configured units
        let (c, last, ok) = conf_credit.get(&key).copied().unwrap_or((cap, now as u128, true));
        let c = (c + (now as u128 - last) * burst as u128).min(cap);
        if ok {
            if c >= period_ns as u128 {
                conf_credit.insert(key, (c - period_ns as u128, now as u128, true));
                rep.count("conforming_arrivals");
                if !got {
                    rep.violation("C18:limiter-refuses-conforming", "an arrival that keeps the sender within its configured quota was refused".into(), witness("conforming", &log));
                }
            } else {
                conf_credit.insert(key, (c, now as u128, false));
            }
        }
        if got {
            let v = accepted.entry(key).or_default();
            v.push(now);
            // pairwise bound against all earlier accepted arrivals of this key
            let j = v.len() - 1;
            for i in 0..j {
                let count = (j - i + 1) as u128;
                if count * t as u128 > period_ns as u128 + (v[j] - v[i]) as u128 {
                    rep.violation("C18:limiter-too-permissive", format!("{count} arrivals accepted within {} ns: more than burst + rate * window", v[j] - v[i]), witness("pairwise", &log));
                    break;
                }
            }
        } else {
            refusals += 1;
        }
    }
    rep.evaluations += 1;
    rep.count_n("limiter_arrivals", n as u64);
    rep.count_n("limiter_refusals", refusals);
    rep.count_n("boundary_spaced_arrivals", boundary);
    rep.count_n("prune_calls", prunes);
    rep.count_n("floods_of_other_senders", floods);
    if exact {
        rep.count("limiter_exact_quota_scenarios");
    }
    if refusals > 0 {
        rep.fingerprint(&("lim", burst.min(20), exact, nkeys, refusals.min(10), prunes.min(5)));
    }
    if rep.want_sample() && refusals > 2 {
        rep.sample(json!({"kind": "limiter", "burst": burst, "period_ns": period_ns, "first_arrivals": log.iter().take(12).cloned().collect::<Vec<_>>()}));
    }
}

fn ip(i: u64) -> IpAddr {
    let v4 = Ipv4Addr::new(172, 16, (i / 200) as u8, (i % 200) as u8 + 1);
    match i % 3 {
        // IPv4-mapped IPv6 source, as a dual-stack socket reports IPv4 senders
        1 => IpAddr::V6(v4.to_ipv6_mapped()),
        2 => IpAddr::V6(std::net::Ipv6Addr::new(0xfd00, 0, 0, 0, 0, 0, 2, i as u16 + 1)),
        _ => IpAddr::V4(v4),
    }
}

fn node(i: u64) -> NodeId {
    let mut b = [0u8; 32];
    b[0] = 0xC1;
    b[24..].copy_from_slice(&i.to_be_bytes());
    NodeId::new(&b)
}

fn filter_scenario(seed: u64, rep: &mut Report) {
    let mut rng = Rng::new(seed);
    let hour = Duration::from_secs(3600);
    let q_total = 8 + rng.below(30);
    let q_ip = 2 + rng.below(8);
    let q_node = 2 + rng.below(8);
    let enabled = rng.chance(9, 10);
    let ban_duration = match rng.below(3) {
        0 => None,
        1 => Some(Duration::from_secs(60)),
        _ => Some(Duration::from_secs(3600)),
    };
    let rl = RateLimiterBuilder::new()
        .total_n_every(q_total, hour)
        .ip_n_every(q_ip, hour)
        .node_n_every(q_node, hour)
        .build()
        .expect("quota");
    let nips = 3 + rng.below(4);
    let nnodes = 3 + rng.below(5);
    // ban / permit combinations
    let mut list = PermitBanList::default();
    for i in 0..nips {
        match rng.below(6) {
            0 => {
                list.permit_ips.insert(ip(i));
            }
            1 => {
                list.ban_ips.insert(ip(i), None);
            }
            2 => {
                list.permit_ips.insert(ip(i));
                list.ban_ips.insert(ip(i), None);
            }
            _ => {}
        }
    }
    for i in 0..nnodes {
        match rng.below(6) {
            0 => {
                list.permit_nodes.insert(node(i));
            }
            1 => {
                list.ban_nodes.insert(node(i), None);
            }
            2 => {
                list.permit_nodes.insert(node(i));
                list.ban_nodes.insert(node(i), None);
            }
            _ => {}
        }
    }
    ban_list_set(list.clone());
    let mut filter = Filter::new(
        FilterConfig { enabled, rate_limiter: Some(rl), max_nodes_per_ip: None, max_bans_per_ip: None },
        ban_duration,
    );
    // model
    let mut m = list;
    let mut ip_used: HashMap<IpAddr, u64> = HashMap::new();
    let mut node_used: HashMap<NodeId, u64> = HashMap::new();
    let mut total_used = 0u64;
    let mut log: Vec<Value> = Vec::new();
    let n = 60 + rng.usize(140);
    let mut classes = std::collections::BTreeSet::new();
    for step in 0..n {
        let i = rng.below(nips);
        let j = rng.below(nnodes);
        let src = SocketAddr::new(ip(i), 30000 + rng.below(4) as u16);
        let na = NodeAddress::new(src, node(j));
        if rng.chance(1, 25) {
            filter.prune_limiter();
        }
        let before = Instant::now();
        let got1 = filter.initial_pass(&src);
        // model stage 1
        let (want1, class1) = if m.permit_ips.contains(&src.ip()) {
            (true, "ip-permitted")
        } else if m.ban_ips.contains_key(&src.ip()) {
            (false, "ip-banned")
        } else if !enabled {
            (true, "filter-off")
        } else if *ip_used.get(&src.ip()).unwrap_or(&0) >= q_ip {
            m.ban_ips.insert(src.ip(), None);
            (false, "ip-over-quota")
        } else {
            *ip_used.entry(src.ip()).or_default() += 1;
            if total_used >= q_total {
                (false, "total-over-quota")
            } else {
                total_used += 1;
                (true, "ip-under-quota")
            }
        };
        classes.insert(class1);
        rep.count(&format!("stage1:{class1}"));
        log.push(json!({"step": step, "src": src.to_string(), "node": j, "stage1": got1, "class1": class1}));
        let witness = |what: &str, log: &Vec<Value>| json!({"scenario_seed": seed.to_string(), "what": what, "enabled": enabled, "quota_total": q_total, "quota_ip": q_ip, "quota_node": q_node, "events": log.iter().rev().take(25).rev().cloned().collect::<Vec<_>>()});
        if got1 != want1 {
            let sig = match (class1, got1) {
                ("ip-banned", true) => "C18:banned-ip-passed",
                ("ip-permitted", false) => "C18:permitted-ip-dropped",
                ("ip-over-quota", true) | ("total-over-quota", true) => "C18:filter-too-permissive",
                (_, false) => "C18:filter-refuses-conforming",
                _ => "C18:filter-stage1-mismatch",
            };
            rep.violation(sig, format!("IP stage let {got1}, expected {want1} ({class1})"), witness("stage1", &log));
            break;
        }
        if class1 == "ip-over-quota" {
            // banned for at least the configured duration
            let snap = ban_list_snapshot();
            match snap.ban_ips.get(&src.ip()) {
                None => rep.violation("C18:over-quota-not-banned", "an IP exceeding its quota was not put on the ban list".into(), witness("ban", &log)),
                Some(until) => {
                    rep.count("bans_observed");
                    if let (Some(d), Some(u)) = (ban_duration, until) {
                        if *u < before + d {
                            rep.violation("C18:ban-too-short", "ban expires before the configured duration".into(), witness("ban", &log));
                        }
                    }
                    if ban_duration.is_none() && until.is_some() {
                        rep.violation("C18:ban-too-short", "permanent ban configured but the ban has an expiry".into(), witness("ban", &log));
                    }
                }
            }
        }
        if !got1 {
            continue;
        }
        let got2 = filter.final_pass(&na);
        let (want2, class2) = if m.permit_nodes.contains(&na.node_id) {
            (true, "node-permitted")
        } else if m.ban_nodes.contains_key(&na.node_id) {
            (false, "node-banned")
        } else if !enabled {
            (true, "filter-off")
        } else if *node_used.get(&na.node_id).unwrap_or(&0) >= q_node {
            m.ban_nodes.insert(na.node_id, None);
            (false, "node-over-quota")
        } else {
            *node_used.entry(na.node_id).or_default() += 1;
            (true, "node-under-quota")
        };
        classes.insert(class2);
        rep.count(&format!("stage2:{class2}"));
        log.push(json!({"step": step, "stage2": got2, "class2": class2}));
        if got2 != want2 {
            let sig = match (class2, got2) {
                ("node-banned", true) => "C18:banned-node-passed",
                ("node-permitted", false) => "C18:permitted-node-dropped",
                ("node-over-quota", true) => "C18:filter-too-permissive",
                (_, false) => "C18:filter-refuses-conforming",
                _ => "C18:filter-stage2-mismatch",
            };
            rep.violation(sig, format!("node stage let {got2}, expected {want2} ({class2})"), witness("stage2", &log));
            break;
        }
        if class2 == "node-over-quota" {
            let snap = ban_list_snapshot();
            match snap.ban_nodes.get(&na.node_id) {
                None => rep.violation("C18:over-quota-not-banned", "a node id exceeding its quota was not put on the ban list".into(), witness("ban", &log)),
                Some(until) => {
                    rep.count("bans_observed");
                    if let (Some(d), Some(u)) = (ban_duration, until) {
                        if *u < before + d {
                            rep.violation("C18:ban-too-short", "ban expires before the configured duration".into(), witness("ban", &log));
                        }
                    }
                }
            }
        }
    }
    rep.evaluations += 1;
    rep.fingerprint(&("filter", enabled, classes.iter().cloned().collect::<Vec<_>>()));
    if rep.want_sample() && classes.len() > 6 {
        rep.sample(json!({"kind": "filter", "quota_total": q_total, "quota_ip": q_ip, "quota_node": q_node, "first_events": log.iter().take(10).cloned().collect::<Vec<_>>()}));
    }
}

pub fn run(p: &Params) -> Report {
    let mut rep = Report::new("C18");
    if let Some(r) = &p.replay {
        let seed: u64 = r["replay"]["scenario_seed"].as_str().unwrap().parse().unwrap();
        if r["replay"]["kind"] == "wire" {
            wire_scenario(seed, &mut rep);
        } else if r["replay"]["kind"] == "ban-purge" {
            scenario_ban_purge(seed, &mut rep);
        } else if r["replay"]["enabled"].is_null() {
            limiter_scenario(seed, &mut rep);
        } else {
            filter_scenario(seed, &mut rep);
        }
        return rep;
    }
    let m = p.budget(1_600, 100_000);
    for i in 0..m {
        let seed = p.shard_seed(0x18F_000 + i);
        crate::util::guarded(&mut rep, seed, |rep| wire_scenario(seed, rep));
        if i % 4 == 0 {
            let seed = p.shard_seed(0xBA2_000 + i);
            crate::util::guarded(&mut rep, seed, |rep| scenario_ban_purge(seed, rep));
        }
    }
    let n = p.budget(80_000, 8_000_000);
    for i in 0..n {
        if i % 4 == 3 {
            let seed = p.shard_seed(0x18_000_000 + i);
            crate::util::guarded(&mut rep, seed, |rep| filter_scenario(seed, rep));
        } else {
            let seed = p.shard_seed(i);
            crate::util::guarded(&mut rep, seed, |rep| limiter_scenario(seed, rep));
        }
    }
    rep
}

/* ------------------------------------------------------------------------------------------ */
/* R1: the same decisions through the real recv path (`handle_inbound`) on the virtual wire    */

fn wire_scenario(seed: u64, rep: &mut Report) {
    use crate::peer::peersim::random_packet;
    use crate::rig::r1::{runtime, RigConfig, WireRig};
    use discv5::verif::{HandlerIn, HandlerOut, Request, RequestBody};
    let rt = runtime(seed);
    rt.block_on(async {
        let mut rng = Rng::new(seed ^ 0x18F);
        let hour = Duration::from_secs(3600);
        let (q_total, q_ip, q_node) = (6 + rng.below(10), 2 + rng.below(3), 2 + rng.below(3));
        let rl = RateLimiterBuilder::new().total_n_every(q_total, hour).ip_n_every(q_ip, hour).node_n_every(q_node, hour).build().unwrap();
        let rig = WireRig::start(&mut rng, RigConfig { packet_filter: true, rate_limiter: Some(rl), ..Default::default() }).await;
        let vid = rig.victim_id();
        let nips = 2 + rng.below(3);
        let nnodes = 3 + rng.below(4);
        let node_ids: Vec<[u8; 32]> = (0..nnodes).map(|_| rng.array()).collect();
        let mut ip_used: HashMap<IpAddr, u64> = HashMap::new();
        let mut node_used: HashMap<[u8; 32], u64> = HashMap::new();
        let mut total_used = 0u64;
        let mut banned_ips: Vec<IpAddr> = Vec::new();
        let mut banned_nodes: Vec<[u8; 32]> = Vec::new();
        let mut log: Vec<Value> = Vec::new();
        // an exemption: the victim waits for an answer from `exempt`
        let exempt = SocketAddr::new(ip(0), 40000);
        let with_exemption = rng.bool();
        if with_exemption {
            let sk = crate::peer::peersim::signing_key(&mut rng);
            let enr = crate::peer::peersim::build_enr(&sk, 1, crate::peer::peersim::EnrAddr::Socket(exempt), None);
            if let Ok(contact) = discv5::NodeContact::try_from_enr(enr, discv5::IpMode::DualStack) {
                rig.submit(HandlerIn::Request(contact, Box::new(Request { id: discv5::RequestId(vec![1]), body: RequestBody::Ping { enr_seq: 1 } })));
                rig.settle().await;
                rig.take_events();
                rig.take_sent();
            }
        }
        for step in 0..(30 + rng.usize(40)) {
            let i = rng.below(nips);
            let j = rng.usize(node_ids.len());
            let src = if with_exemption && rng.chance(1, 4) { exempt } else { SocketAddr::new(ip(i), 30000 + rng.below(3) as u16) };
            let (d, _) = random_packet(&mut rng, &node_ids[j], &vid);
            rig.inject(src, d);
            rig.settle().await;
            let passed = rig.take_events().iter().any(|e| matches!(&e.v, HandlerOut::WhoAreYou(w) if w.0.socket_addr == src && w.0.node_id.raw() == node_ids[j]));
            let is_exempt = with_exemption && src == exempt && rig.exemptions().contains_key(&exempt);
            let want = if is_exempt {
                true
            } else if banned_ips.contains(&src.ip()) {
                false
            } else if *ip_used.get(&src.ip()).unwrap_or(&0) >= q_ip {
                banned_ips.push(src.ip());
                false
            } else {
                *ip_used.entry(src.ip()).or_default() += 1;
                if total_used >= q_total {
                    false
                } else {
                    total_used += 1;
                    if banned_nodes.contains(&node_ids[j]) {
                        false
                    } else if *node_used.get(&node_ids[j]).unwrap_or(&0) >= q_node {
                        banned_nodes.push(node_ids[j]);
                        false
                    } else {
                        *node_used.entry(node_ids[j]).or_default() += 1;
                        true
                    }
                }
            };
            log.push(json!({"step": step, "src": src.to_string(), "node": j, "passed": passed, "expected": want, "exempt": is_exempt}));
            rep.count("wire_datagrams");
            if is_exempt {
                rep.count("wire_exempt_datagrams");
            }
            if passed != want {
                let sig = if passed { "C18:filter-too-permissive" } else if is_exempt { "C18:exempt-address-filtered" } else { "C18:filter-refuses-conforming" };
                rep.violation(sig, format!("through the receive path a datagram from {src} was {} but the filter rules say {}", if passed { "let through" } else { "dropped" }, if want { "pass" } else { "drop" }), json!({"scenario_seed": seed.to_string(), "kind": "wire", "quota_total": q_total, "quota_ip": q_ip, "quota_node": q_node, "events": log}));
                break;
            }
        }
        rep.evaluations += 1;
        rep.fingerprint(&("wire", q_total, q_ip, q_node, with_exemption, banned_ips.len(), banned_nodes.len()));
    });
}
