//! Toolkit smoke test: spec-side peer against the real handler in both handshake roles.
use crate::peer::{peersim::*, rlp_ref::RefMessage, codec_ref::RefKind};
use crate::rig::r1::*;
use crate::util::{Params, Report, Rng};
use discv5::verif::{HandlerIn, HandlerOut, Request, RequestBody};
use discv5::{NodeContact, RequestId};

pub fn run(p: &Params) -> Report {
    let mut rep = Report::new("smoke");
    let mut rng = Rng::new(p.seed);
    let rt = runtime(p.seed);
    rt.block_on(async {
        let rig = WireRig::start(&mut rng, RigConfig::default()).await;
        let vid = rig.victim_id();
        let vpub = rig.victim.public();
        let paddr = v4(10, 0, 0, 2, 9000);
        let mut peer = PeerSim::new(&mut rng, paddr, EnrAddr::Socket(paddr), 1);

        // 1. peer-initiated: random packet -> WhoAreYou query -> WHOAREYOU -> handshake(PING)
        let (d, _n) = peer.random_packet(&vid);
        rig.inject(paddr, d);
        rig.settle().await;
        let evs = rig.take_events();
        println!("events after random: {:?}", evs.iter().map(|e| format!("{:?}", e.v)).collect::<Vec<_>>());
        let wru = match &evs[0].v { HandlerOut::WhoAreYou(r) => r.clone(), _ => panic!() };
        rig.submit(HandlerIn::WhoAreYou(wru, None));
        rig.settle().await;
        let sent = rig.take_sent();
        assert_eq!(sent.len(), 1);
        let dec = peer.parse(&sent[0].v.1).expect("whoareyou parses");
        println!("victim sent: {:?}", dec.kind);
        let ping = RefMessage::Ping { id: vec![1, 2], enr_seq: 1 };
        let hs = peer.honest_handshake(&vid, &vpub, &dec.aad, true, &ping);
        rig.inject(paddr, hs.datagram);
        rig.settle().await;
        for e in rig.take_events() { println!("ev @{:?}: {:?}", e.at, e.v); }

        // 2. victim-initiated to a second peer
        let qaddr = v4(10, 0, 0, 3, 9000);
        let mut q = PeerSim::new(&mut rng, qaddr, EnrAddr::Socket(qaddr), 7);
        let contact = NodeContact::try_from_enr(q.ident.enr.clone(), discv5::IpMode::Ip4).unwrap();
        rig.submit(HandlerIn::Request(contact, Box::new(Request { id: RequestId(vec![9]), body: RequestBody::Ping { enr_seq: 1 } })));
        rig.settle().await;
        let sent = rig.take_sent();
        let dec = q.parse(&sent[0].v.1).expect("random parses");
        println!("victim sent to q: {:?} msg len {}", dec.kind, dec.message.len());
        let w = q.whoareyou(&vid, dec.nonce, 0);
        rig.inject(qaddr, w);
        rig.settle().await;
        let sent = rig.take_sent();
        let dec = q.parse(&sent[0].v.1).expect("handshake parses");
        match &dec.kind { RefKind::Handshake { record, .. } => println!("handshake with record: {}", record.is_some()), k => panic!("{k:?}") }
        let (gen, pt) = q.accept_handshake(&vid, &vpub, &dec).expect("accept");
        println!("q accepted gen {gen} msg {:?}", RefMessage::decode(&pt));
        for e in rig.take_events() { println!("ev @{:?}: {:?}", e.at, e.v); }
        let pong = RefMessage::Pong { id: vec![9], enr_seq: 7, ip: vec![10, 0, 0, 1], port: 9000 };
        let (d, _) = q.message(&vid, &pong, None);
        rig.inject(qaddr, d);
        rig.settle().await;
        for e in rig.take_events() { println!("ev @{:?}: {:?}", e.at, e.v); }
        println!("exemptions: {:?}", rig.exemptions());
        rep.evaluations = 1;
    });
    rep
}

pub fn pool_sizes() {
    let mut rng = crate::util::Rng::new(5);
    let pool = crate::props::c05::record_pool(&mut rng, 40);
    let mut sizes: Vec<usize> = pool.iter().map(|e| crate::peer::rlp_ref::encode_record(e).len()).collect();
    sizes.sort();
    println!("{sizes:?}");
}

pub fn max_record() {
    use discv5::Enr;
    let mut rng = crate::util::Rng::new(5);
    let sk = crate::peer::peersim::signing_key(&mut rng);
    let key = crate::peer::peersim::combined(&sk);
    for pad in 150..200usize {
        let mut b = Enr::builder();
        b.seq(1);
        b.ip4(std::net::Ipv4Addr::new(10, 0, 0, 1));
        b.udp4(9000);
        b.add_value("zpad", &vec![0xABu8; pad].as_slice());
        match b.build(&key) {
            Ok(e) => println!("pad {pad}: len {}", alloy_rlp::encode(&e).len()),
            Err(e) => println!("pad {pad}: {e:?}"),
        }
    }
}

pub fn raw_rec() {
    let mut rng = crate::util::Rng::new(5);
    let sk = crate::peer::peersim::signing_key(&mut rng);
    for t in [120usize, 296, 299, 300, 301] {
        let e = crate::peer::peersim::record_of_size(&sk, 3, Some(crate::rig::r1::v4(10, 0, 0, 9, 9000)), t);
        println!("target {t}: {:?}", e.map(|e| (alloy_rlp::encode(&e).len(), e.udp4_socket(), e.seq())));
    }
}
