//! C09 / C10, R0 half — the lookup state machines driven directly with explicit time.
//!
//! A randomized driver alternates `next(now)`, delivery of successes / failures to contacted peers
//! (including late, double and unknown-peer deliveries) and time jumps, then closes the lookup
//! with a fair schedule. The monitor keeps its own ledger of hand-outs and deliveries:
//!
//! C09 (i)   no peer is handed out twice;
//!     (ii)  at each hand-out the number of peers in flight (handed out, no outcome delivered,
//!           age < peer timeout) is below `parallelism`, or below `num_results` when a stall is
//!           possible (>= `parallelism` successes delivered so far — a necessary condition);
//!     (iii) under the fair closing schedule `Finished` is reached within 2*known+2 calls;
//!     (iv)  after `Finished`, `next` stays `Finished` and callbacks are inert.
//! C10       result: <= k entries, distinct, strictly increasing distance, every entry had a
//!           success delivered (predicate: was flagged/reported matching); if fewer than k are
//!           returned every candidate the query definitely learned of was handed out.

use super::kb::{self, Id};
use crate::util::{hx, Params, Report, Rng};
use discv5::enr::NodeId;
use discv5::verif::{FindNodeQuery, PredicateQuery, PredicateResult, QueryState};
use serde_json::{json, Value};
use std::collections::{HashMap, HashSet};
use std::time::{Duration, Instant};

enum Machine {
    Find(FindNodeQuery),
    Pred(PredicateQuery),
}

impl Machine {
    fn next(&mut self, now: Instant) -> QueryState<NodeId> {
        match self {
            Machine::Find(q) => q.next(now),
            Machine::Pred(q) => q.next(now),
        }
    }
    fn on_success(&mut self, peer: &Id, returned: &[(Id, bool)]) {
        match self {
            Machine::Find(q) => q.on_success(&NodeId::new(peer), returned.iter().map(|(i, _)| NodeId::new(i)).collect()),
            Machine::Pred(q) => {
                let v: Vec<PredicateResult> = returned.iter().map(|(i, m)| PredicateResult { node_id: NodeId::new(i), matches: *m }).collect();
                q.on_success(&NodeId::new(peer), &v)
            }
        }
    }
    fn on_failure(&mut self, peer: &Id) {
        match self {
            Machine::Find(q) => q.on_failure(&NodeId::new(peer)),
            Machine::Pred(q) => q.on_failure(&NodeId::new(peer)),
        }
    }
    fn into_result(self) -> Vec<Id> {
        match self {
            Machine::Find(q) => q.into_result().into_iter().map(|n| n.raw()).collect(),
            Machine::Pred(q) => q.into_result().into_iter().map(|n| n.raw()).collect(),
        }
    }
}

#[derive(Default, Clone)]
struct PeerLedger {
    handed_at: Option<Duration>,
    /// outcomes delivered after the hand-out, in order: true = success
    outcomes: Vec<bool>,
}

pub struct Ledger {
    pub which: &'static str,
    pub target: Id,
    pub parallelism: usize,
    pub num_results: usize,
    pub peer_timeout: Duration,
    peers: HashMap<Id, PeerLedger>,
    /// ids the query definitely knows: first `num_results` initial candidates + ids returned in
    /// successes that were the first outcome of a handed-out peer
    learned: HashSet<Id>,
    /// ids that may satisfy the predicate from the query's point of view (upper bound)
    maybe_matching: HashSet<Id>,
    successes_delivered: usize,
    log: Vec<Value>,
    pub max_inflight_seen: usize,
    pub stall_handouts: u64,
}

impl Ledger {
    fn inflight(&self, now: Duration) -> usize {
        self.peers
            .values()
            .filter(|p| match p.handed_at {
                Some(t) => p.outcomes.is_empty() && now < t + self.peer_timeout,
                None => false,
            })
            .count()
    }

    fn replay(&self, seed: u64, what: &str) -> Value {
        json!({"scenario_seed": seed.to_string(), "what": what, "machine": self.which, "parallelism": self.parallelism,
            "num_results": self.num_results, "peer_timeout_ms": self.peer_timeout.as_millis() as u64,
            "target": hx(&self.target), "events": self.log.iter().rev().take(40).rev().cloned().collect::<Vec<_>>()})
    }

    /// Records a hand-out and checks (i) and (ii).
    fn handed_out(&mut self, peer: Id, now: Duration, seed: u64, rep: &mut Report, prefix: &str) {
        let inflight = self.inflight(now);
        self.log.push(json!({"t_ms": now.as_millis() as u64, "ev": "handout", "peer": hx(&peer[..4]), "inflight_before": inflight}));
        let entry = self.peers.entry(peer).or_default();
        if entry.handed_at.is_some() {
            let r = self.replay(seed, "peer handed out twice");
            rep.violation(&format!("{prefix}:peer-contacted-twice"), format!("{} handed the same peer out twice", self.which), r);
            return;
        }
        entry.handed_at = Some(now);
        rep.count("handouts");
        self.max_inflight_seen = self.max_inflight_seen.max(inflight + 1);
        if inflight >= self.parallelism {
            let stall_possible = self.successes_delivered >= self.parallelism;
            if stall_possible && inflight < self.num_results {
                self.stall_handouts += 1;
                rep.count("handouts_above_parallelism_when_stall_possible");
            } else {
                let r = self.replay(seed, "parallelism exceeded");
                rep.violation(
                    &format!("{prefix}:parallelism-exceeded"),
                    format!("{}: hand-out with {inflight} requests in flight (parallelism {}, num_results {}, successes so far {})", self.which, self.parallelism, self.num_results, self.successes_delivered),
                    r,
                );
            }
        }
    }

    fn delivered(&mut self, peer: &Id, success: bool, returned: &[(Id, bool)], now: Duration) {
        self.log.push(json!({"t_ms": now.as_millis() as u64, "ev": if success {"success"} else {"failure"}, "peer": hx(&peer[..4]), "returned": returned.len()}));
        let Some(p) = self.peers.get_mut(peer) else { return };
        if p.handed_at.is_none() {
            return;
        }
        let first = p.outcomes.is_empty();
        p.outcomes.push(success);
        if success {
            self.successes_delivered += 1;
            for (id, m) in returned {
                if *m {
                    self.maybe_matching.insert(*id);
                }
                if first {
                    self.learned.insert(*id);
                }
            }
        }
    }
}

fn returned_set(rng: &mut Rng, universe: &[Id], target: &Id, responder: &Id, matching: &HashMap<Id, bool>) -> Vec<(Id, bool)> {
    let n = match rng.below(5) {
        0 => 0,
        1 => 1,
        _ => rng.usize(17),
    };
    let mut v = Vec::new();
    for _ in 0..n {
        let id = match rng.below(12) {
            0 => *target,
            1 => *responder,
            _ => *rng.pick(universe),
        };
        // the same node may be reported with different records over time (stale table entry,
        // then a fresh record): the predicate outcome is a property of the report, not of the id
        let base = *matching.get(&id).unwrap_or(&false);
        v.push((id, if rng.chance(1, 5) { !base } else { base }));
    }
    v
}

pub fn scenario(seed: u64, rep: &mut Report, prefix: &str) {
    let mut rng = Rng::new(seed);
    let parallelism = 1 + rng.usize(8);
    let num_results = 1 + rng.usize(20);
    let peer_timeout = Duration::from_millis(*rng.pick(&[50u64, 1000, 10_000]));
    let target: Id = rng.array();
    // universe: random ids, some very close to the target
    let mut universe: Vec<Id> = Vec::new();
    let usize_n = 20 + rng.usize(50);
    for _ in 0..usize_n {
        let id = if rng.chance(1, 4) { kb::id_at_distance(&mut rng, &target, rng_range(seed, 1, 40)) } else { rng.array() };
        if !universe.contains(&id) && id != target {
            universe.push(id);
        }
    }
    let mut matching: HashMap<Id, bool> = HashMap::new();
    for id in &universe {
        matching.insert(*id, rng.chance(2, 5));
    }
    matching.insert(target, rng.bool());
    let ninit = rng.usize(41).min(universe.len());
    let mut initial: Vec<Id> = universe[..ninit].to_vec();
    if rng.chance(1, 10) && ninit > 0 {
        initial[0] = target;
    }
    // the service hands candidates over sorted by distance; also try unsorted
    if rng.chance(3, 4) {
        initial.sort_by(|a, b| kb::xor(a, &target).cmp(&kb::xor(b, &target)));
    }
    let predicate = rng.bool();
    let mut machine = if predicate {
        Machine::Pred(PredicateQuery::new(
            parallelism,
            num_results,
            peer_timeout,
            NodeId::new(&target),
            initial.iter().map(|i| PredicateResult { node_id: NodeId::new(i), matches: matching[i] }).collect(),
        ))
    } else {
        Machine::Find(FindNodeQuery::new(parallelism, num_results, peer_timeout, NodeId::new(&target), initial.iter().map(NodeId::new).collect()))
    };
    let mut led = Ledger {
        which: if predicate { "PredicateQuery" } else { "FindNodeQuery" },
        target,
        parallelism,
        num_results,
        peer_timeout,
        peers: HashMap::new(),
        learned: initial.iter().take(num_results).copied().collect(),
        maybe_matching: initial.iter().filter(|i| matching[*i]).copied().collect(),
        successes_delivered: 0,
        log: vec![json!({"initial": initial.len()})],
        max_inflight_seen: 0,
        stall_handouts: 0,
    };
    let base = Instant::now();
    let mut now = Duration::ZERO;
    let mut finished = false;
    let mut late = 0u64;
    let mut doubles = 0u64;

    // ---- random phase ----
    let steps = 30 + rng.usize(200);
    for _ in 0..steps {
        match rng.below(10) {
            0..=4 => match machine.next(base + now) {
                QueryState::Waiting(Some(peer)) => led.handed_out(peer.raw(), now, seed, rep, prefix),
                QueryState::Waiting(None) | QueryState::WaitingAtCapacity => {}
                QueryState::Finished => {
                    finished = true;
                    break;
                }
            },
            5..=7 => {
                // deliver an outcome
                let handed: Vec<Id> = led.peers.iter().filter(|(_, p)| p.handed_at.is_some()).map(|(i, _)| *i).collect();
                let peer = if handed.is_empty() || rng.chance(1, 12) { *rng.pick(&universe) } else { *rng.pick(&handed) };
                if let Some(p) = led.peers.get(&peer) {
                    if !p.outcomes.is_empty() {
                        doubles += 1;
                    } else if let Some(t) = p.handed_at {
                        if now >= t + peer_timeout {
                            late += 1;
                        }
                    }
                }
                if rng.chance(2, 3) {
                    let ret = returned_set(&mut rng, &universe, &target, &peer, &matching);
                    machine.on_success(&peer, &ret);
                    led.delivered(&peer, true, &ret, now);
                } else {
                    machine.on_failure(&peer);
                    led.delivered(&peer, false, &[], now);
                }
            }
            _ => {
                let jump = match rng.below(4) {
                    0 => Duration::ZERO,
                    1 => peer_timeout + Duration::from_millis(1),
                    2 => peer_timeout / 2,
                    _ => Duration::from_millis(rng.below(40)),
                };
                now += jump;
            }
        }
    }

    // ---- fair closing schedule ----
    let known_bound = 2 * (led.learned.len() + universe.len() + 1) + 2;
    let mut calls = 0usize;
    while !finished {
        calls += 1;
        if calls > known_bound {
            let r = led.replay(seed, "no termination under fair schedule");
            rep.violation(&format!("{prefix}:no-termination"), format!("{} did not finish within {known_bound} calls of next() although every request got an outcome", led.which), r);
            break;
        }
        match machine.next(base + now) {
            QueryState::Finished => finished = true,
            QueryState::Waiting(Some(peer)) => {
                let peer = peer.raw();
                led.handed_out(peer, now, seed, rep, prefix);
                if rng.bool() {
                    machine.on_success(&peer, &[]);
                    led.delivered(&peer, true, &[], now);
                } else {
                    machine.on_failure(&peer);
                    led.delivered(&peer, false, &[], now);
                }
            }
            QueryState::Waiting(None) | QueryState::WaitingAtCapacity => {
                let open: Vec<Id> = led.peers.iter().filter(|(_, p)| p.handed_at.is_some() && p.outcomes.is_empty()).map(|(i, _)| *i).collect();
                for peer in open {
                    if rng.bool() {
                        machine.on_success(&peer, &[]);
                        led.delivered(&peer, true, &[], now);
                    } else {
                        machine.on_failure(&peer);
                        led.delivered(&peer, false, &[], now);
                    }
                }
                now += Duration::from_millis(1);
            }
        }
    }
    rep.evaluations += 1;
    if !finished {
        return;
    }
    rep.count("finished");
    // (iv) inert after finish
    let probe_peer = *rng.pick(&universe);
    machine.on_success(&probe_peer, &[(rng.array(), true)]);
    machine.on_failure(&probe_peer);
    if machine.next(base + now) != QueryState::Finished {
        let r = led.replay(seed, "not finished after finished");
        rep.violation(&format!("{prefix}:finished-not-absorbing"), "next() left the Finished state".into(), r);
    }

    // ---- C10: the result ----
    let all_handed = |led: &Ledger| -> Vec<Id> { led.learned.iter().filter(|i| led.peers.get(*i).map(|p| p.handed_at.is_none()).unwrap_or(true)).copied().collect() };
    let result = machine.into_result();
    let c10 = if prefix == "C09" { "C10" } else { prefix };
    let show = |r: &[Id]| r.iter().map(|i| hx(&i[..4])).collect::<Vec<_>>();
    let mut replay = led.replay(seed, "result");
    replay["result"] = json!(show(&result));
    if result.len() > num_results {
        rep.violation(&format!("{c10}:too-many-results"), format!("{} entries returned, k = {num_results}", result.len()), replay.clone());
    }
    let set: HashSet<&Id> = result.iter().collect();
    if set.len() != result.len() {
        rep.violation(&format!("{c10}:duplicate-result"), "result contains a node twice".into(), replay.clone());
    }
    for w in result.windows(2) {
        if kb::xor(&w[0], &target) >= kb::xor(&w[1], &target) {
            rep.violation(&format!("{c10}:result-order"), "result is not in strictly increasing distance to the target".into(), replay.clone());
            break;
        }
    }
    for id in &result {
        let answered = led.peers.get(id).map(|p| p.handed_at.is_some() && p.outcomes.contains(&true)).unwrap_or(false);
        if !answered {
            rep.violation(&format!("{c10}:result-never-answered"), "result contains a node that never answered the lookup's request".into(), replay.clone());
        }
        if predicate && !led.maybe_matching.contains(id) {
            rep.violation(&format!("{c10}:result-not-matching"), "predicate lookup returned a node never reported with a matching record".into(), replay.clone());
        }
    }
    if result.len() < num_results {
        rep.count("result_below_k");
        let missing = all_handed(&led);
        if !missing.is_empty() {
            replay["not_contacted"] = json!(show(&missing));
            rep.violation(&format!("{c10}:incomplete"), format!("fewer than k results but {} learned candidates were never contacted", missing.len()), replay.clone());
        }
    } else {
        rep.count("result_full_k");
    }
    rep.max("inflight", led.max_inflight_seen as u64);
    rep.count_n("late_deliveries", late);
    rep.count_n("double_deliveries", doubles);
    if !led.peers.is_empty() {
        rep.fingerprint(&(predicate, parallelism, num_results.min(20), led.max_inflight_seen.min(20), led.stall_handouts.min(3), late.min(3), doubles.min(3), result.len().min(20)));
    }
    if rep.want_sample() && led.stall_handouts > 0 {
        rep.sample(led.replay(seed, "sample with hand-outs above parallelism during a possible stall"));
    }
}

fn rng_range(seed: u64, lo: u64, hi: u64) -> u64 {
    // small deterministic helper independent of the main stream
    lo + crate::util::mix_seed(seed, lo, hi) % (hi - lo + 1)
}

pub fn run(p: &Params, prefix: &str) -> Report {
    let mut rep = Report::new(prefix);
    if let Some(r) = &p.replay {
        if super::sys::replay(r, &mut rep) {
            return rep;
        }
    }
    if let Some(r) = &p.replay {
        let seed: u64 = r["replay"]["scenario_seed"].as_str().unwrap().parse().unwrap();
        if r["replay"]["half"] == "service" {
            let mut urng = Rng::new(p.shard_seed(0x909));
            let uni = super::c09r2::universe(&mut urng, 60);
            super::c09r2::scenario(seed, &uni, &mut rep, prefix);
        } else {
            scenario(seed, &mut rep, prefix);
        }
        return rep;
    }
    // R2 half: lookups on a real service with scripted handler
    let mut urng = Rng::new(p.shard_seed(0x909));
    let uni = super::c09r2::universe(&mut urng, 60);
    let m = p.budget(800, 40_000);
    for i in 0..m {
        let seed = p.shard_seed(0x92_0000 + i);
        crate::util::guarded(&mut rep, seed, |rep| super::c09r2::scenario(seed, &uni, rep, prefix));
    }
    let n = p.budget(60_000, 4_000_000);
    for i in 0..n {
        let seed = p.shard_seed(i);
        crate::util::guarded(&mut rep, seed, |rep| scenario(seed, rep, prefix));
    }
    // full stack: lookups of an unmodified Discv5 through a simulated network
    let focus = if prefix == "C09" { super::sys::Focus::C09 } else { super::sys::Focus::C10 };
    super::sys::run_lookups(p, focus, 0x5C09_0000, 1600, 100_000, &mut rep);
    rep
}
