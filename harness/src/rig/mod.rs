pub mod engine;
pub mod r1;
pub mod r2;
pub mod r3;
