pub mod engine;
pub mod r1;
pub mod r2;
