pub mod r1;
