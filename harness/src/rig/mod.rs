pub mod engine;
pub mod r1;
