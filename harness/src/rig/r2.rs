//! R2 — the service rig: a real `Discv5` (unmodified `Discv5::new` + `start`, hence unmodified
//! `Service::spawn` / `Service::start`) whose handler is played by the harness through the
//! scripted-handler hook. The harness is also the user of the public API.

use crate::peer::peersim::{build_enr2, combined, signing_key, EnrAddr};
use crate::util::Rng;
use discv5::enr::k256::ecdsa::SigningKey;
use discv5::enr::NodeId;
use discv5::verif::{push_scripted_handler, HandlerIn, HandlerOut, HandlerScript};
use discv5::{ConfigBuilder, Discv5, Enr, Event, ListenConfig, TokioExecutor};
use std::net::{Ipv4Addr, Ipv6Addr, SocketAddr};
use std::time::Duration;
use tokio::sync::mpsc;

#[derive(Clone, Copy, Debug, PartialEq, Eq, Hash)]
pub enum Mode {
    Ip4,
    Ip6,
    Dual,
}

pub struct ServiceCfg {
    pub mode: Mode,
    pub tweak: Box<dyn Fn(&mut ConfigBuilder)>,
    /// Does the local record advertise its socket(s)?
    pub local_enr_has_addr: bool,
}

impl Default for ServiceCfg {
    fn default() -> Self {
        ServiceCfg { mode: Mode::Ip4, tweak: Box::new(|_| {}), local_enr_has_addr: false }
    }
}

pub const LOCAL_V4: SocketAddr = SocketAddr::new(std::net::IpAddr::V4(Ipv4Addr::new(10, 0, 0, 1)), 9000);
pub const LOCAL_V6: SocketAddr = SocketAddr::new(std::net::IpAddr::V6(Ipv6Addr::new(0xfd00, 0, 0, 0, 0, 0, 0, 1)), 9000);

pub struct ServiceRig {
    pub discv5: std::sync::Arc<Discv5>,
    pub sk: SigningKey,
    pub local_id: NodeId,
    pub script: Option<HandlerScript>,
    pub events: mpsc::Receiver<Event>,
}

thread_local! {
    static FROM_SOCKETS: std::cell::Cell<bool> = const { std::cell::Cell::new(false) };
}

/// The next rig started on this thread hands the node pre-bound UDP sockets on the loopback
/// interface (`ListenConfig::FromSockets`: an IPv4 one, an IPv6 one or both, as its mode says)
/// instead of addresses to bind. Nothing is ever sent over them: the handler is scripted.
pub fn next_rig_listens_on_given_sockets(on: bool) {
    FROM_SOCKETS.with(|f| f.set(on));
}

impl ServiceRig {
    /// Must be called inside a runtime.
    pub async fn start(rng: &mut Rng, cfg: ServiceCfg) -> ServiceRig {
        let sk = signing_key(rng);
        let (a, b) = if cfg.local_enr_has_addr {
            match cfg.mode {
                Mode::Ip4 => (EnrAddr::Socket(LOCAL_V4), EnrAddr::None),
                Mode::Ip6 => (EnrAddr::Socket(LOCAL_V6), EnrAddr::None),
                Mode::Dual => (EnrAddr::Socket(LOCAL_V4), EnrAddr::Socket(LOCAL_V6)),
            }
        } else {
            (EnrAddr::None, EnrAddr::None)
        };
        let enr = build_enr2(&sk, 1, a, b, None);
        let listen = match cfg.mode {
            Mode::Ip4 => ListenConfig::Ipv4 { ip: Ipv4Addr::new(10, 0, 0, 1), port: 9000 },
            Mode::Ip6 => ListenConfig::Ipv6 { ip: Ipv6Addr::new(0xfd00, 0, 0, 0, 0, 0, 0, 1), port: 9000 },
            Mode::Dual => ListenConfig::DualStack { ipv4: Ipv4Addr::new(10, 0, 0, 1), ipv4_port: 9000, ipv6: Ipv6Addr::new(0xfd00, 0, 0, 0, 0, 0, 0, 1), ipv6_port: 9000 },
        };
        let listen = if FROM_SOCKETS.with(|f| f.replace(false)) {
            let v4 = tokio::net::UdpSocket::bind("127.0.0.1:0").await.ok().map(std::sync::Arc::new);
            let v6 = tokio::net::UdpSocket::bind("[::1]:0").await.ok().map(std::sync::Arc::new);
            match (cfg.mode, v4, v6) {
                (Mode::Ip4, Some(v4), _) => ListenConfig::FromSockets { ipv4: Some(v4), ipv6: None },
                (Mode::Ip6, _, Some(v6)) => ListenConfig::FromSockets { ipv4: None, ipv6: Some(v6) },
                (Mode::Dual, Some(v4), Some(v6)) => ListenConfig::FromSockets { ipv4: Some(v4), ipv6: Some(v6) },
                _ => listen,
            }
        } else {
            listen
        };
        let mut builder = ConfigBuilder::new(listen);
        builder.executor(Box::new(TokioExecutor));
        (cfg.tweak)(&mut builder);
        let config = builder.build();
        let local_id = enr.node_id();
        let mut discv5 = Discv5::new(enr, combined(&sk), config).expect("discv5");
        let script = push_scripted_handler();
        discv5.start().await.expect("service start with scripted handler");
        let events = discv5.event_stream().await.expect("event stream");
        ServiceRig { discv5: std::sync::Arc::new(discv5), sk, local_id, script: Some(script), events }
    }

    pub async fn emit(&self, ev: HandlerOut) {
        if let Some(s) = &self.script {
            let _ = s.to_service.send(ev).await;
        }
    }

    /// Quiescent point of the paused-clock runtime.
    pub async fn settle(&self) {
        tokio::time::sleep(Duration::from_millis(1)).await;
    }

    /// Everything the service sent to its handler since the last call.
    pub fn take_handler_in(&mut self) -> Vec<HandlerIn> {
        let mut v = Vec::new();
        if let Some(s) = &mut self.script {
            while let Ok(m) = s.from_service.try_recv() {
                v.push(m);
            }
        }
        v
    }

    pub fn take_events(&mut self) -> Vec<Event> {
        let mut v = Vec::new();
        while let Ok(e) = self.events.try_recv() {
            v.push(e);
        }
        v
    }

    pub fn local_enr(&self) -> Enr {
        self.discv5.local_enr()
    }
}

pub fn runtime(seed: u64) -> tokio::runtime::Runtime {
    crate::rig::r1::runtime(seed)
}
