//! R3 — the full stack: an unmodified `Discv5` (`Discv5::new` + `start`: service task, handler
//! task, socket tasks) whose only substitution is the virtual wire, inside a simulated network of
//! spec-side nodes (`PeerSim`: independent codec and crypto). The harness is the user of the
//! public API and the network. Everything is observed at the two boundaries a deployment has:
//! the datagrams on the wire and the public API (calls, results, events, table views).
//!
//! As in the R1 engine at most ONE datagram reaches the node under test per quiescent point of
//! the paused-clock runtime, so that effects are attributable to their cause.

use crate::peer::{
    codec_ref::{self, RefKind},
    peersim::{accept_victim_handshake, build_enr2, combined, signing_key, EnrAddr, Id, Identity, KeyGen, PeerSim},
    crypto_ref,
    rlp_ref::{self, RefMessage},
};
use crate::props::kb;
use crate::rig::r1::Stamped;
use crate::util::Rng;
use discv5::enr::k256::ecdsa::VerifyingKey;
use discv5::verif::push_virtual_wire;
use discv5::{ConfigBuilder, Discv5, Enr, Event, ListenConfig, TalkRequest, TokioExecutor};
use parking_lot::Mutex;
use std::collections::HashMap;
use std::net::{Ipv4Addr, Ipv6Addr, SocketAddr};
use std::sync::Arc;
use std::time::Duration;
use tokio::sync::mpsc;
use tokio::time::Instant;

pub const VICTIM_V4: SocketAddr = SocketAddr::new(std::net::IpAddr::V4(Ipv4Addr::new(10, 0, 0, 1)), 9000);
pub const VICTIM_V6: SocketAddr = SocketAddr::new(std::net::IpAddr::V6(Ipv6Addr::new(0xfd00, 0, 0, 0, 0, 0, 0, 1)), 9000);

#[derive(Clone, Copy, Debug, PartialEq, Eq, Hash)]
pub enum Stack3 {
    V4,
    Dual,
}

pub struct WorldCfg {
    pub stack: Stack3,
    pub victim_enr_has_addr: bool,
    pub tweak: Box<dyn Fn(&mut ConfigBuilder)>,
    pub request_timeout: Duration,
    pub request_retries: u8,
}

impl Default for WorldCfg {
    fn default() -> Self {
        WorldCfg { stack: Stack3::V4, victim_enr_has_addr: true, tweak: Box::new(|_| {}), request_timeout: Duration::from_secs(1), request_retries: 1 }
    }
}

#[derive(Clone, Debug)]
pub struct NodeBehaviour {
    /// never reacts to anything (a dead or unreachable node)
    pub silent: bool,
    pub respond: bool,
    pub challenge_unknown: bool,
    pub answer_whoareyou: bool,
    /// address reported in PONGs instead of the observed one
    pub pong_addr: Option<SocketAddr>,
    pub records_per_packet: usize,
    /// per-mille probability that a reply is not sent at all
    pub lose_replies: u64,
    /// record returned for distance 0 instead of the node's current one
    pub own_record_override: Option<Vec<u8>>,
    /// replies are put on the wire this much later (a slow node)
    pub reply_delay: Duration,
    /// a record (raw bytes, node id) this node slips into its NODES answers whenever its log2
    /// distance from this node is NOT among the requested ones
    pub off_distance_record: Option<(Vec<u8>, Id)>,
    /// what this node hands out for distance 0 instead of its one own record, in this order
    pub own_records_list: Option<Vec<Vec<u8>>>,
}

impl Default for NodeBehaviour {
    fn default() -> Self {
        NodeBehaviour { silent: false, respond: true, challenge_unknown: true, answer_whoareyou: true, pong_addr: None, records_per_packet: 3, lose_replies: 0, own_record_override: None, reply_delay: Duration::ZERO, off_distance_record: None, own_records_list: None }
    }
}

pub struct Node {
    pub sim: PeerSim,
    pub b: NodeBehaviour,
    /// indices of the nodes this node "has in its table"
    pub neighbours: Vec<usize>,
    pending_out: HashMap<[u8; 12], RefMessage>,
    /// monitor-side key generations derived from everything seen (never used to act)
    pub mon_keys: Vec<KeyGen>,
    all_challenges: Vec<Vec<u8>>,
    next_req: u64,
    /// requests this node sent to the node under test
    pub requests_sent: Vec<(Duration, RefMessage)>,
    /// decrypted responses of the node under test (time of delivery to this node, wire length)
    pub responses_got: Vec<(Duration, RefMessage, usize)>,
    /// decrypted requests of the node under test
    pub requests_got: Vec<(Duration, RefMessage)>,
    /// replies this node put on the wire (before the fault injector)
    pub replies_sent: Vec<(Duration, RefMessage)>,
    /// a handshake with the node under test completed on this node's side
    pub handshakes_completed: u64,
    /// per key generation of this node: when it was created, and whether the node under test is
    /// known to hold it (it sent the handshake itself, or it announced the session in the very
    /// step in which this node's handshake packet reached it)
    pub gen_created: Vec<Duration>,
    pub gen_at_victim: Vec<bool>,
    /// records this node signed earlier (other nodes may still hand them out)
    pub old_records: Vec<Vec<u8>>,
    /// a datagram to or from this node was lost, or the node left a request unanswered: the node
    /// under test may have given up on requests whose answers were still under way
    pub lost_any: bool,
}

#[derive(Clone, Debug, Default)]
pub struct Faults3 {
    pub drop: u64,
    pub dup: u64,
    pub delay: u64,
    /// per-mille of datagrams for the node under test that are tampered with on the way
    /// (a bit flipped, truncated, extended)
    pub corrupt: u64,
    /// per-mille of datagrams for the node under test that are recorded and injected again
    /// later, from the same or from another node's address
    pub replay: u64,
}

/// What a datagram for the node under test is, as its sender knows it.
#[derive(Clone, Debug)]
pub struct Tag {
    /// "random" | "message" | "handshake" | "whoareyou" | "crafted" | ""
    pub via: &'static str,
    pub msg: Option<RefMessage>,
    pub label: String,
    /// key generation (index into the sender's key list) the datagram is encrypted under
    pub gen: Option<usize>,
}

impl Tag {
    pub fn new(via: &'static str, msg: Option<&RefMessage>) -> Tag {
        Tag { via, msg: msg.cloned(), label: match msg { Some(m) => format!("{via} {}", show(m)), None => via.to_string() }, gen: None }
    }
    pub fn with_gen(mut self, gen: usize) -> Tag {
        self.gen = Some(gen);
        self
    }
    pub fn none() -> Tag {
        Tag { via: "", msg: None, label: String::new(), gen: None }
    }
}

#[derive(Clone, Debug)]
pub struct Injected {
    pub from: SocketAddr,
    pub node: Option<usize>,
    pub tag: Tag,
}

struct Flight {
    due: Duration,
    to_victim: bool,
    node: usize,
    addr: SocketAddr,
    bytes: Vec<u8>,
    tag: Tag,
}

#[derive(Clone, Debug)]
pub enum WEv {
    Sent { to: SocketAddr, node: Option<usize>, kind: &'static str, len: usize, msg: Option<RefMessage> },
    Injected { from: SocketAddr, node: Option<usize>, label: String, msg: Option<RefMessage> },
    Dropped { to_victim: bool, node: usize },
    Event(String),
    Note(String),
}

/// Summary of a `discv5::Event` that can be stored and compared.
#[derive(Clone, Debug, PartialEq)]
pub enum EvSum {
    Discovered(Id, u64),
    NodeInserted(Id, Option<Id>),
    Unverifiable(Id, SocketAddr),
    Established(Id, u64, SocketAddr),
    SessionsExpired(usize),
    SocketUpdated(SocketAddr),
    Talk { from: Id, addr_id: Vec<u8>, protocol: Vec<u8>, body: Vec<u8> },
    Other,
}

pub struct World {
    pub discv5: Arc<Discv5>,
    pub victim: Identity,
    pub victim_pub: VerifyingKey,
    pub victim_id: Id,
    pub wire: discv5::verif::VirtualWire,
    sent: Arc<Mutex<Vec<Stamped<(SocketAddr, Vec<u8>)>>>>,
    events_rx: mpsc::Receiver<Event>,
    start: Instant,
    pub nodes: Vec<Node>,
    pub rng: Rng,
    pub faults: Faults3,
    flights: Vec<Flight>,
    pub trace: Vec<(Duration, WEv)>,
    /// every event of the node under test, stamped with the quiescent point it was collected at
    pub events: Vec<(Duration, EvSum)>,
    /// TALK requests handed to the application and not yet answered or dropped
    pub talk_inbox: Vec<(Duration, TalkRequest)>,
    /// datagrams the node under test sent to an address no simulated node owns
    pub unclaimed: Vec<(Duration, SocketAddr, Vec<u8>)>,
    /// every datagram the node under test sent (time, destination, bytes)
    pub all_sent: Vec<(Duration, SocketAddr, Vec<u8>)>,
    /// answers into which a node slipped its off-distance record (time, node, request id)
    pub off_distance_served: Vec<(Duration, usize, Vec<u8>)>,
    /// every datagram simulated nodes delivered to the node under test (time, source, kind, bytes)
    pub all_injected: Vec<(Duration, SocketAddr, &'static str, Vec<u8>)>,
    pub request_timeout: Duration,
    pub request_retries: u8,
    /// index of the datagram last injected during the current step, if any
    pub last_injected: Option<Injected>,
}

pub fn log2(a: &Id, b: &Id) -> u64 {
    kb::log2(a, b)
}

impl World {
    /// Must be called inside a paused current-thread runtime.
    pub async fn start(seed: u64, cfg: WorldCfg) -> World {
        let mut rng = Rng::new(seed);
        let sk = signing_key(&mut rng);
        let (a, b) = if cfg.victim_enr_has_addr {
            match cfg.stack {
                Stack3::V4 => (EnrAddr::Socket(VICTIM_V4), EnrAddr::None),
                Stack3::Dual => (EnrAddr::Socket(VICTIM_V4), EnrAddr::Socket(VICTIM_V6)),
            }
        } else {
            (EnrAddr::None, EnrAddr::None)
        };
        let enr = build_enr2(&sk, 1, a, b, None);
        let id: Id = enr.node_id().raw();
        let victim = Identity { sk: sk.clone(), enr: enr.clone(), id, addr: VICTIM_V4 };
        let listen = match cfg.stack {
            Stack3::V4 => ListenConfig::Ipv4 { ip: Ipv4Addr::new(10, 0, 0, 1), port: 9000 },
            Stack3::Dual => ListenConfig::DualStack { ipv4: Ipv4Addr::new(10, 0, 0, 1), ipv4_port: 9000, ipv6: Ipv6Addr::new(0xfd00, 0, 0, 0, 0, 0, 0, 1), ipv6_port: 9000 },
        };
        let mut builder = ConfigBuilder::new(listen);
        builder.request_timeout(cfg.request_timeout).request_retries(cfg.request_retries).executor(Box::new(TokioExecutor));
        (cfg.tweak)(&mut builder);
        let config = builder.build();
        discv5::verif::ban_list_set(discv5::PermitBanList::default());
        let mut discv5 = Discv5::new(enr, combined(&sk), config).expect("discv5");
        let mut wire = push_virtual_wire();
        discv5.start().await.expect("start over the virtual wire");
        let events_rx = discv5.event_stream().await.expect("event stream");
        let discv5 = Arc::new(discv5);
        let start = Instant::now();
        let sent = Arc::new(Mutex::new(Vec::new()));
        let (dummy_tx, dummy_rx) = mpsc::unbounded_channel();
        drop(dummy_tx);
        let mut sent_rx = std::mem::replace(&mut wire.sent, dummy_rx);
        {
            let sent = sent.clone();
            tokio::spawn(async move {
                while let Some(d) = sent_rx.recv().await {
                    sent.lock().push(Stamped { at: Instant::now() - start, v: d });
                }
            });
        }
        let victim_pub = victim.public();
        World {
            discv5,
            victim,
            victim_pub,
            victim_id: id,
            wire,
            sent,
            events_rx,
            start,
            nodes: Vec::new(),
            rng,
            faults: Faults3::default(),
            flights: Vec::new(),
            trace: Vec::new(),
            events: Vec::new(),
            talk_inbox: Vec::new(),
            unclaimed: Vec::new(),
            all_sent: Vec::new(),
            all_injected: Vec::new(),
            off_distance_served: Vec::new(),
            request_timeout: cfg.request_timeout,
            request_retries: cfg.request_retries,
            last_injected: None,
        }
    }

    pub fn now(&self) -> Duration {
        Instant::now() - self.start
    }

    pub fn note(&mut self, s: String) {
        let at = self.now();
        self.trace.push((at, WEv::Note(s)));
    }

    pub fn add_node(&mut self, addr: SocketAddr, enr_addr: EnrAddr, seq: u64) -> usize {
        let sim = PeerSim::new(&mut self.rng, addr, enr_addr, seq);
        self.nodes.push(Node {
            sim,
            b: NodeBehaviour::default(),
            neighbours: Vec::new(),
            pending_out: HashMap::new(),
            mon_keys: Vec::new(),
            all_challenges: Vec::new(),
            next_req: 1,
            requests_sent: Vec::new(),
            responses_got: Vec::new(),
            requests_got: Vec::new(),
            replies_sent: Vec::new(),
            handshakes_completed: 0,
            gen_created: Vec::new(),
            gen_at_victim: Vec::new(),
            old_records: Vec::new(),
            lost_any: false,
        });
        self.nodes.len() - 1
    }

    pub fn enr(&self, i: usize) -> Enr {
        self.nodes[i].sim.ident.enr.clone()
    }

    pub fn id(&self, i: usize) -> Id {
        self.nodes[i].sim.ident.id
    }

    pub fn node_by_id(&self, id: &Id) -> Option<usize> {
        self.nodes.iter().position(|n| n.sim.ident.id == *id)
    }

    /// The address of the node under test as node `i` sees it.
    fn victim_addr_for(&self, i: usize) -> SocketAddr {
        if self.nodes[i].sim.addr().is_ipv6() {
            VICTIM_V6
        } else {
            VICTIM_V4
        }
    }

    /* ------------------------------ node side ------------------------------ */

    /// Node `i` sends a request to the node under test (a random packet first if it has no
    /// session). Returns the request id.
    pub fn node_request(&mut self, i: usize, mut msg: RefMessage) -> Vec<u8> {
        let vid = self.victim_id;
        let now = self.now();
        let n = &mut self.nodes[i];
        let mut id = vec![0xEEu8, i as u8];
        id.extend_from_slice(&(n.next_req as u32).to_be_bytes());
        n.next_req += 1;
        match &mut msg {
            RefMessage::Ping { id: x, .. } | RefMessage::FindNode { id: x, .. } | RefMessage::TalkReq { id: x, .. } => *x = id.clone(),
            _ => panic!("not a request"),
        }
        n.requests_sent.push((now, msg.clone()));
        let (bytes, label) = if n.sim.latest(&vid).is_some() {
            let (b, nonce) = n.sim.message(&vid, &msg, None);
            n.pending_out.insert(nonce, msg.clone());
            (b, Tag::new("message", Some(&msg)).with_gen(n.sim.keys[&vid].len() - 1))
        } else {
            let (b, nonce) = n.sim.random_packet(&vid);
            n.pending_out.insert(nonce, msg.clone());
            (b, Tag::new("random", None))
        };
        let addr = n.sim.addr();
        self.route(true, i, addr, bytes, label);
        id
    }

    pub fn node_lose_session(&mut self, i: usize) {
        let vid = self.victim_id;
        self.nodes[i].sim.keys.remove(&vid);
        // key generations are numbered from 0 again
        self.nodes[i].gen_created.clear();
        self.nodes[i].gen_at_victim.clear();
    }

    /// Inject right now, bypassing the fault injector (attack scripts). Counts as the step's input.
    pub fn inject_now(&mut self, from: SocketAddr, bytes: Vec<u8>, label: &str) {
        let at = self.now();
        let _ = self.wire.inject.send((from, bytes));
        self.trace.push((at, WEv::Injected { from, node: None, label: label.to_string(), msg: None }));
        self.last_injected = Some(Injected { from, node: None, tag: Tag { via: "crafted", msg: None, label: label.to_string(), gen: None } });
    }

    fn route(&mut self, to_victim: bool, node: usize, addr: SocketAddr, bytes: Vec<u8>, tag: Tag) {
        let now = self.now();
        let f = self.faults.clone();
        if self.rng.below(1000) < f.drop {
            self.trace.push((now, WEv::Dropped { to_victim, node }));
            if let Some(n) = self.nodes.get_mut(node) {
                n.lost_any = true;
            }
            return;
        }
        let copies = if self.rng.below(1000) < f.dup { 2 } else { 1 };
        for _ in 0..copies {
            let delay = if self.rng.below(1000) < f.delay {
                match self.rng.below(4) {
                    0 => Duration::from_millis(1 + self.rng.below(30)),
                    1 => self.request_timeout / 2,
                    2 => self.request_timeout + self.request_timeout / 5,
                    _ => self.request_timeout * 5 / 2,
                }
            } else {
                Duration::ZERO
            };
            let mut bytes = bytes.clone();
            let mut tag = tag.clone();
            if to_victim && self.rng.below(1000) < f.corrupt && !bytes.is_empty() {
                match self.rng.below(3) {
                    0 => {
                        let k = self.rng.usize(bytes.len());
                        bytes[k] ^= 1 << self.rng.below(8);
                    }
                    1 => {
                        let keep = self.rng.usize(bytes.len());
                        bytes.truncate(keep);
                    }
                    _ => {
                        let extra = 1 + self.rng.usize(8);
                        let more = self.rng.bytes(extra);
                        bytes.extend(more);
                    }
                }
                tag = Tag { via: "corrupted", msg: None, label: format!("corrupted ({})", tag.label), gen: None };
            }
            let replay = to_victim && self.rng.below(1000) < f.replay;
            self.flights.push(Flight { due: now + delay, to_victim, node, addr, bytes: bytes.clone(), tag: tag.clone() });
            if replay {
                // the copy is queued after the original and is due later: it really is a replay
                let later = now + delay + Duration::from_millis(5 + self.rng.below(4000));
                let from = if self.rng.bool() || self.nodes.len() < 2 { addr } else { let j = self.rng.usize(self.nodes.len()); self.nodes[j].sim.addr() };
                let via: &'static str = if tag.via == "handshake" { "replayed-handshake" } else { "replayed" };
                self.flights.push(Flight { due: later, to_victim, node, addr: from, bytes, tag: Tag { via, msg: None, label: format!("{via} ({}) from {from}", tag.label), gen: None } });
            }
        }
    }

    /// Observation only: classify a datagram of the node under test addressed to node `i`.
    fn classify(&mut self, i: usize, bytes: &[u8]) -> (&'static str, Option<RefMessage>) {
        let vid = self.victim_id;
        let vpub = self.victim_pub;
        let n = &mut self.nodes[i];
        let Ok(dec) = n.sim.parse(bytes) else { return ("unparsable", None) };
        match &dec.kind {
            RefKind::WhoAreYou { .. } => ("whoareyou", None),
            RefKind::Handshake { src_id, .. } => {
                if src_id != &vid {
                    return ("unparsable", None);
                }
                for cd in n.all_challenges.iter().rev() {
                    if let Ok((k, pt)) = accept_victim_handshake(&n.sim.ident, &vid, &vpub, cd, &dec) {
                        if !n.mon_keys.contains(&k) {
                            n.mon_keys.push(k);
                        }
                        return ("handshake", RefMessage::decode(&pt).ok());
                    }
                }
                ("handshake", None)
            }
            RefKind::Message { src_id } => {
                if src_id != &vid {
                    return ("unparsable", None);
                }
                for k in n.mon_keys.iter().rev() {
                    if let Some(pt) = crypto_ref::gcm_decrypt(&k.recv, &dec.nonce, &dec.message, &dec.aad) {
                        return ("message", RefMessage::decode(&pt).ok());
                    }
                }
                ("random", None)
            }
        }
    }

    fn node_react(&mut self, i: usize, bytes: &[u8]) {
        if self.nodes[i].b.silent {
            return;
        }
        let vid = self.victim_id;
        let vpub = self.victim_pub;
        let addr = self.nodes[i].sim.addr();
        let Ok(dec) = self.nodes[i].sim.parse(bytes) else { return };
        match dec.kind.clone() {
            RefKind::WhoAreYou { enr_seq, .. } => {
                let n = &mut self.nodes[i];
                if !n.b.answer_whoareyou {
                    return;
                }
                let Some(msg) = n.pending_out.remove(&dec.nonce) else { return };
                let with_record = enr_seq < n.sim.ident.enr.seq();
                let out = n.sim.honest_handshake(&vid, &vpub, &dec.aad, with_record, &msg);
                if let Some(k) = &out.keys {
                    if !n.mon_keys.contains(k) {
                        n.mon_keys.push(k.clone());
                    }
                }
                n.handshakes_completed += 1;
                n.pending_out.insert(out.nonce, msg.clone());
                let gen = n.sim.keys.get(&vid).map(|k| k.len() - 1).unwrap_or(0);
                let now = Instant::now() - self.start;
                n.gen_created.resize(gen + 1, now);
                n.gen_at_victim.resize(gen + 1, false);
                self.route(true, i, addr, out.datagram, Tag::new("handshake", Some(&msg)).with_gen(gen));
            }
            RefKind::Handshake { .. } => {
                let res = self.nodes[i].sim.accept_handshake(&vid, &vpub, &dec);
                if let Ok((g, pt)) = res {
                    self.nodes[i].handshakes_completed += 1;
                    let now = self.now();
                    self.nodes[i].gen_created.resize(g + 1, now);
                    self.nodes[i].gen_at_victim.resize(g + 1, false);
                    self.nodes[i].gen_at_victim[g] = true;
                    if let Some(k) = self.nodes[i].sim.latest(&vid).cloned() {
                        if !self.nodes[i].mon_keys.contains(&k) {
                            self.nodes[i].mon_keys.push(k);
                        }
                    }
                    if let Ok(m) = RefMessage::decode(&pt) {
                        self.node_handle(i, m, bytes.len());
                    }
                }
            }
            RefKind::Message { .. } => match self.nodes[i].sim.decrypt(&vid, &dec) {
                Some((_g, pt)) => {
                    if let Ok(m) = RefMessage::decode(&pt) {
                        self.node_handle(i, m, bytes.len());
                    }
                }
                None => {
                    let n = &mut self.nodes[i];
                    if n.b.challenge_unknown {
                        let w = n.sim.whoareyou(&vid, dec.nonce, 0);
                        let cd = n.sim.sent_challenges[&dec.nonce].clone();
                        n.all_challenges.push(cd);
                        self.route(true, i, addr, w, Tag::new("whoareyou", None));
                    }
                }
            },
        }
    }

    fn node_handle(&mut self, i: usize, m: RefMessage, wire_len: usize) {
        let now = self.now();
        let vid = self.victim_id;
        let addr = self.nodes[i].sim.addr();
        if !m.is_request() {
            self.nodes[i].responses_got.push((now, m, wire_len));
            return;
        }
        self.nodes[i].requests_got.push((now, m.clone()));
        if !self.nodes[i].b.respond {
            self.nodes[i].lost_any = true;
            return;
        }
        let id = m.id().to_vec();
        let replies: Vec<RefMessage> = match &m {
            RefMessage::Ping { .. } => {
                let seen = self.nodes[i].b.pong_addr.unwrap_or_else(|| self.victim_addr_for(i));
                vec![RefMessage::Pong { id, enr_seq: self.nodes[i].sim.ident.enr.seq(), ip: rlp_ref::ip_bytes(&seen.ip()), port: seen.port() }]
            }
            RefMessage::FindNode { distances, .. } => {
                let me = self.nodes[i].sim.ident.id;
                let mut recs: Vec<Vec<u8>> = Vec::new();
                if distances.contains(&0) {
                    if let Some(list) = self.nodes[i].b.own_records_list.clone() {
                        recs.extend(list);
                    } else {
                        let own = self.nodes[i].b.own_record_override.clone().unwrap_or_else(|| self.nodes[i].sim.ident.record_bytes());
                        recs.push(own);
                    }
                }
                for &j in &self.nodes[i].neighbours {
                    let d = log2(&me, &self.nodes[j].sim.ident.id);
                    if distances.contains(&d) && recs.len() < 16 {
                        // a neighbour's record as this node has it: not always the latest one
                        let stale = !self.nodes[j].old_records.is_empty() && self.rng.chance(1, 3);
                        if stale {
                            let k = self.rng.usize(self.nodes[j].old_records.len());
                            recs.push(self.nodes[j].old_records[k].clone());
                        } else {
                            recs.push(self.nodes[j].sim.ident.record_bytes());
                        }
                    }
                }
                if let Some((raw, pid)) = self.nodes[i].b.off_distance_record.clone() {
                    if !distances.contains(&log2(&me, &pid)) {
                        // first, so that it travels in the first packet of the answer
                        recs.insert(0, raw);
                        self.off_distance_served.push((now, i, id.clone()));
                    }
                }
                let per = self.nodes[i].b.records_per_packet.max(1);
                let chunks: Vec<Vec<Vec<u8>>> = if recs.is_empty() { vec![vec![]] } else { recs.chunks(per).map(|c| c.to_vec()).collect() };
                let total = chunks.len() as u64;
                chunks.into_iter().map(|records| RefMessage::Nodes { id: id.clone(), total, records }).collect()
            }
            RefMessage::TalkReq { request, .. } => vec![RefMessage::TalkResp { id, response: request.clone() }],
            _ => vec![],
        };
        for r in replies {
            if self.nodes[i].sim.latest(&vid).is_none() {
                return;
            }
            if self.rng.below(1000) < self.nodes[i].b.lose_replies {
                self.nodes[i].lost_any = true;
                continue;
            }
            let (b, _nonce) = self.nodes[i].sim.message(&vid, &r, None);
            self.nodes[i].replies_sent.push((now, r.clone()));
            let gen = self.nodes[i].sim.keys[&vid].len() - 1;
            let slow = self.nodes[i].b.reply_delay;
            let before = self.flights.len();
            self.route(true, i, addr, b, Tag::new("message", Some(&r)).with_gen(gen));
            if slow > Duration::ZERO {
                for f in self.flights[before..].iter_mut() {
                    f.due += slow;
                }
            }
        }
    }

    /* ------------------------------- stepping ------------------------------- */

    fn node_at(&self, addr: &SocketAddr, bytes: &[u8]) -> Option<usize> {
        let mut at_addr = None;
        for (i, n) in self.nodes.iter().enumerate() {
            if n.sim.addr() == *addr {
                at_addr.get_or_insert(i);
                if codec_ref::decode(&n.sim.ident.id, bytes).is_ok() {
                    return Some(i);
                }
            }
        }
        at_addr
    }

    /// Deliver what is due (one datagram at most to the node under test), reach a quiescent
    /// point, collect outputs and events. Returns the number of things that happened.
    pub async fn step(&mut self) -> usize {
        let now = self.now();
        let mut happened = 0;
        let mut fed = self.last_injected.is_some();
        // earliest first (stable for equal times), so that a delayed datagram never overtakes
        // one that was due before it when several became due during an idle jump
        self.flights.sort_by_key(|f| f.due);
        let mut k = 0;
        while k < self.flights.len() {
            if self.flights[k].due <= now && (!self.flights[k].to_victim || !fed) {
                let f = self.flights.remove(k);
                happened += 1;
                if f.to_victim {
                    fed = true;
                    let _ = self.wire.inject.send((f.addr, f.bytes.clone()));
                    self.all_injected.push((now, f.addr, f.tag.via, f.bytes.clone()));
                    self.trace.push((now, WEv::Injected { from: f.addr, node: Some(f.node), label: f.tag.label.clone(), msg: f.tag.msg.clone() }));
                    self.last_injected = Some(Injected { from: f.addr, node: Some(f.node), tag: f.tag });
                } else {
                    self.node_react(f.node, &f.bytes);
                }
            } else {
                k += 1;
            }
        }
        tokio::time::sleep(Duration::from_millis(1)).await;
        happened += self.collect();
        happened
    }

    /// Forget which datagram was the current step's input (call after judging the step).
    pub fn end_step(&mut self) {
        self.last_injected = None;
    }

    pub fn collect(&mut self) -> usize {
        let mut happened = 0;
        let sent: Vec<Stamped<(SocketAddr, Vec<u8>)>> = std::mem::take(&mut *self.sent.lock());
        for s in sent {
            happened += 1;
            let (to, bytes) = s.v;
            self.all_sent.push((s.at, to, bytes.clone()));
            let node = self.node_at(&to, &bytes);
            let (kind, msg) = match node {
                Some(i) => self.classify(i, &bytes),
                None => ("unclaimed", None),
            };
            self.trace.push((s.at, WEv::Sent { to, node, kind, len: bytes.len(), msg }));
            match node {
                Some(i) => self.route(false, i, to, bytes, Tag::none()),
                None => self.unclaimed.push((s.at, to, bytes)),
            }
        }
        let now = self.now();
        while let Ok(e) = self.events_rx.try_recv() {
            happened += 1;
            let sum = match e {
                Event::Discovered(enr) => EvSum::Discovered(enr.node_id().raw(), enr.seq()),
                Event::NodeInserted { node_id, replaced } => EvSum::NodeInserted(node_id.raw(), replaced.map(|r| r.raw())),
                Event::UnverifiableEnr { node_id, socket, .. } => EvSum::Unverifiable(node_id.raw(), socket),
                Event::SessionEstablished(enr, addr) => {
                    // the handshake packet that is this step's input was accepted
                    if let Some(Injected { node: Some(i), tag: Tag { via: "handshake", gen: Some(g), .. }, .. }) = &self.last_injected {
                        if self.nodes[*i].sim.ident.id == enr.node_id().raw() && *g < self.nodes[*i].gen_at_victim.len() {
                            self.nodes[*i].gen_at_victim[*g] = true;
                        }
                    }
                    EvSum::Established(enr.node_id().raw(), enr.seq(), addr)
                }
                Event::SessionsExpired(v) => EvSum::SessionsExpired(v.len()),
                Event::SocketUpdated(a) => EvSum::SocketUpdated(a),
                Event::TalkRequest(t) => {
                    let s = EvSum::Talk { from: t.node_id().raw(), addr_id: t.id().0.clone(), protocol: t.protocol().to_vec(), body: t.body().to_vec() };
                    self.talk_inbox.push((now, t));
                    s
                }
                _ => EvSum::Other,
            };
            self.trace.push((now, WEv::Event(format!("{sum:?}"))));
            self.events.push((now, sum));
        }
        happened
    }

    pub fn idle(&self) -> bool {
        self.flights.is_empty()
    }

    /// Keep stepping until `deadline` (virtual time), jumping over idle stretches in small quanta.
    pub async fn run_until(&mut self, deadline: Duration) {
        let quantum = (self.request_timeout / 8).max(Duration::from_millis(2));
        while self.now() < deadline {
            let n = self.step().await;
            self.end_step();
            if n == 0 {
                let now = self.now();
                let mut next = deadline.min(now + quantum);
                for f in &self.flights {
                    next = next.min(f.due.max(now));
                }
                if next > now + Duration::from_millis(1) {
                    tokio::time::sleep(next - now - Duration::from_millis(1)).await;
                }
            }
        }
    }

    pub async fn run_for(&mut self, d: Duration) {
        let deadline = self.now() + d;
        self.run_until(deadline).await;
    }

    /// Routing-table view through the public API: (id, record, connected, incoming).
    pub fn table(&self) -> Vec<(Id, Enr, bool, bool)> {
        self.discv5.table_entries().into_iter().map(|(id, enr, st)| (id.raw(), enr, st.is_connected(), st.is_incoming())).collect()
    }

    pub fn dump(&self, last: usize) -> serde_json::Value {
        let start = self.trace.len().saturating_sub(last);
        serde_json::Value::Array(
            self.trace[start..]
                .iter()
                .map(|(at, e)| {
                    let s = match e {
                        WEv::Sent { to, node, kind, len, msg } => format!("victim -> {to} (node {node:?}) {kind} {len}B {}", msg.as_ref().map(show).unwrap_or_default()),
                        WEv::Injected { from, node, label, .. } => format!("{from} (node {node:?}) -> victim: {label}"),
                        WEv::Dropped { to_victim, node } => format!("network lost a datagram ({} node {node})", if *to_victim { "from" } else { "to" }),
                        WEv::Event(s) => format!("event {s}"),
                        WEv::Note(s) => format!("-- {s}"),
                    };
                    serde_json::Value::String(format!("{:>9.3}ms {s}", at.as_secs_f64() * 1000.0))
                })
                .collect(),
        )
    }
}

pub fn show(m: &RefMessage) -> String {
    use crate::util::hx;
    match m {
        RefMessage::Ping { id, enr_seq } => format!("PING#{} seq={enr_seq}", hx(id)),
        RefMessage::Pong { id, enr_seq, port, .. } => format!("PONG#{} seq={enr_seq} port={port}", hx(id)),
        RefMessage::FindNode { id, distances } => format!("FINDNODE#{} {distances:?}", hx(id)),
        RefMessage::Nodes { id, total, records } => format!("NODES#{} total={total} records={}", hx(id), records.len()),
        RefMessage::TalkReq { id, request, .. } => format!("TALKREQ#{} {}B", hx(id), request.len()),
        RefMessage::TalkResp { id, response } => format!("TALKRESP#{} {}B", hx(id), response.len()),
    }
}

pub fn runtime(seed: u64) -> tokio::runtime::Runtime {
    crate::rig::r1::runtime(seed)
}
