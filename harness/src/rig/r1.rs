//! R1 — the wire rig: one real `Handler` (via the unmodified `Handler::spawn`) on a virtual wire,
//! in a single-threaded runtime with a paused clock and a seeded `select!` RNG. The harness is the
//! application above the handler *and* the whole network below it.
//!
//! Two pump tasks stamp every `HandlerOut` event and every emitted datagram with the exact
//! virtual instant at which the handler produced it. `settle()` sleeps 1 virtual ms, which — the
//! clock being paused — returns only once every task is idle: a true quiescent point.

use crate::peer::peersim::{build_enr2, combined, signing_key, EnrAddr, Id, Identity};
use crate::util::Rng;
use discv5::{
    enr::NodeId,
    verif::{push_virtual_wire, Handler, HandlerIn, HandlerOut},
    Config, ConfigBuilder, ListenConfig, TokioExecutor,
};
use parking_lot::{Mutex, RwLock};
use std::{
    collections::HashMap,
    net::{Ipv4Addr, Ipv6Addr, SocketAddr},
    sync::Arc,
    time::Duration,
};
use tokio::sync::{mpsc, oneshot};
use tokio::time::Instant;

pub fn runtime(seed: u64) -> tokio::runtime::Runtime {
    tokio::runtime::Builder::new_current_thread()
        .enable_all()
        .start_paused(true)
        .rng_seed(tokio::runtime::RngSeed::from_bytes(&seed.to_le_bytes()))
        .build()
        .expect("runtime")
}

/// An event with the virtual time (since rig start) at which the handler emitted it.
#[derive(Clone, Debug)]
pub struct Stamped<T> {
    pub at: Duration,
    pub v: T,
}

#[derive(Clone, Copy, Debug, PartialEq, Eq)]
pub enum Stack {
    V4,
    V6,
    Dual,
}

pub struct RigConfig {
    pub stack: Stack,
    pub request_timeout: Duration,
    pub request_retries: u8,
    pub session_timeout: Duration,
    pub session_cache_capacity: usize,
    pub packet_filter: bool,
    pub rate_limiter: Option<discv5::RateLimiter>,
    pub victim_seq: u64,
    /// Does the victim's record carry its socket address?
    pub victim_enr_has_addr: bool,
    /// Non-default protocol id / version the node is configured with.
    pub protocol_identity: Option<discv5::ProtocolIdentity>,
    /// `Some(d)`: the ban duration of the packet filter is set to `d` (default: one hour).
    pub ban_duration: Option<Option<Duration>>,
}

impl Default for RigConfig {
    fn default() -> Self {
        RigConfig {
            stack: Stack::V4,
            request_timeout: Duration::from_secs(1),
            request_retries: 1,
            session_timeout: Duration::from_secs(86400),
            session_cache_capacity: 1000,
            packet_filter: false,
            rate_limiter: None,
            victim_seq: 1,
            victim_enr_has_addr: true,
            protocol_identity: None,
            ban_duration: None,
        }
    }
}

pub const VICTIM_V4: SocketAddr =
    SocketAddr::new(std::net::IpAddr::V4(Ipv4Addr::new(10, 0, 0, 1)), 9000);
pub const VICTIM_V6: SocketAddr = SocketAddr::new(
    std::net::IpAddr::V6(Ipv6Addr::new(0xfd00, 0, 0, 0, 0, 0, 0, 1)),
    9000,
);

pub struct WireRig {
    pub victim: Identity,
    pub to_handler: mpsc::UnboundedSender<HandlerIn>,
    inject: mpsc::UnboundedSender<(SocketAddr, Vec<u8>)>,
    events: Arc<Mutex<Vec<Stamped<HandlerOut>>>>,
    sent: Arc<Mutex<Vec<Stamped<(SocketAddr, Vec<u8>)>>>>,
    wire: discv5::verif::VirtualWire,
    _exit: oneshot::Sender<()>,
    start: Instant,
    pub cfg_request_timeout: Duration,
    pub cfg_request_retries: u8,
}

impl WireRig {
    /// Must be called inside the runtime.
    pub async fn start(rng: &mut Rng, cfg: RigConfig) -> WireRig {
        let sk = signing_key(rng);
        let (a, b) = if cfg.victim_enr_has_addr {
            match cfg.stack {
                Stack::V4 => (EnrAddr::Socket(VICTIM_V4), EnrAddr::None),
                Stack::V6 => (EnrAddr::Socket(VICTIM_V6), EnrAddr::None),
                Stack::Dual => (EnrAddr::Socket(VICTIM_V4), EnrAddr::Socket(VICTIM_V6)),
            }
        } else {
            (EnrAddr::None, EnrAddr::None)
        };
        let enr = build_enr2(&sk, cfg.victim_seq, a, b, None);
        let id: Id = enr.node_id().raw();
        let victim = Identity {
            sk: sk.clone(),
            enr: enr.clone(),
            id,
            addr: match cfg.stack {
                Stack::V6 => VICTIM_V6,
                _ => VICTIM_V4,
            },
        };
        let listen = match cfg.stack {
            Stack::V4 => ListenConfig::Ipv4 {
                ip: Ipv4Addr::new(10, 0, 0, 1),
                port: 9000,
            },
            Stack::V6 => ListenConfig::Ipv6 {
                ip: Ipv6Addr::new(0xfd00, 0, 0, 0, 0, 0, 0, 1),
                port: 9000,
            },
            Stack::Dual => ListenConfig::DualStack {
                ipv4: Ipv4Addr::new(10, 0, 0, 1),
                ipv4_port: 9000,
                ipv6: Ipv6Addr::new(0xfd00, 0, 0, 0, 0, 0, 0, 1),
                ipv6_port: 9000,
            },
        };
        let mut builder = ConfigBuilder::new(listen);
        builder
            .request_timeout(cfg.request_timeout)
            .request_retries(cfg.request_retries)
            .session_timeout(cfg.session_timeout)
            .session_cache_capacity(cfg.session_cache_capacity)
            .executor(Box::new(TokioExecutor));
        if let Some(pi) = cfg.protocol_identity {
            builder.protocol_identity(pi);
        }
        if let Some(d) = cfg.ban_duration {
            builder.ban_duration(d);
        }
        if cfg.packet_filter {
            builder.enable_packet_filter();
            builder.filter_rate_limiter(cfg.rate_limiter.clone());
        }
        let config: Config = builder.build();

        // the permit/ban list is a process-wide static: start every rig from an empty one
        discv5::verif::ban_list_set(discv5::PermitBanList::default());
        let wire = push_virtual_wire();
        let (exit, to_handler, mut from_handler) = Handler::spawn(
            Arc::new(RwLock::new(enr)),
            Arc::new(RwLock::new(combined(&sk))),
            config,
        )
        .await
        .expect("handler spawn over virtual wire");

        let start = Instant::now();
        let events = Arc::new(Mutex::new(Vec::new()));
        let sent = Arc::new(Mutex::new(Vec::new()));
        let mut wire = wire;
        // Move the receiving half of the wire into a pump task; keep the rest.
        let (dummy_tx, dummy_rx) = mpsc::unbounded_channel();
        drop(dummy_tx);
        let mut sent_rx = std::mem::replace(&mut wire.sent, dummy_rx);
        {
            let events = events.clone();
            tokio::spawn(async move {
                while let Some(ev) = from_handler.recv().await {
                    events.lock().push(Stamped {
                        at: Instant::now() - start,
                        v: ev,
                    });
                }
            });
            let sent = sent.clone();
            tokio::spawn(async move {
                while let Some(d) = sent_rx.recv().await {
                    sent.lock().push(Stamped {
                        at: Instant::now() - start,
                        v: d,
                    });
                }
            });
        }
        let inject = wire.inject.clone();
        WireRig {
            victim,
            to_handler,
            inject,
            events,
            sent,
            wire,
            _exit: exit,
            start,
            cfg_request_timeout: cfg.request_timeout,
            cfg_request_retries: cfg.request_retries,
        }
    }

    pub fn victim_id(&self) -> Id {
        self.victim.id
    }

    pub fn victim_node_id(&self) -> NodeId {
        NodeId::new(&self.victim.id)
    }

    pub fn now(&self) -> Duration {
        Instant::now() - self.start
    }

    /// Deliver a datagram to the victim as coming from `src`.
    pub fn inject(&self, src: SocketAddr, bytes: Vec<u8>) {
        let _ = self.inject.send((src, bytes));
    }

    pub fn submit(&self, msg: HandlerIn) {
        let _ = self.to_handler.send(msg);
    }

    /// One quiescent point: everything the handler can do without further input or time is done.
    pub async fn settle(&self) {
        tokio::time::sleep(Duration::from_millis(1)).await;
    }

    pub async fn sleep(&self, d: Duration) {
        tokio::time::sleep(d).await;
    }

    pub fn take_events(&self) -> Vec<Stamped<HandlerOut>> {
        std::mem::take(&mut *self.events.lock())
    }

    pub fn take_sent(&self) -> Vec<Stamped<(SocketAddr, Vec<u8>)>> {
        std::mem::take(&mut *self.sent.lock())
    }

    /// The handler's filter-exemption map right now.
    pub fn exemptions(&self) -> HashMap<SocketAddr, usize> {
        self.wire.expected_responses().unwrap_or_default()
    }
}

pub fn v4(a: u8, b: u8, c: u8, d: u8, port: u16) -> SocketAddr {
    SocketAddr::new(std::net::IpAddr::V4(Ipv4Addr::new(a, b, c, d)), port)
}

pub fn v6(last: u16, port: u16) -> SocketAddr {
    SocketAddr::new(
        std::net::IpAddr::V6(Ipv6Addr::new(0xfd00, 0, 0, 0, 0, 0, 1, last)),
        port,
    )
}
