//! The R1 engine: honest (and faulty) peers, a fault-injecting network and a scripted application
//! around one real handler on the virtual wire, plus a complete timestamped trace for the offline
//! monitors (C03, C04, C13, C15, C19).

use crate::peer::{
    codec_ref::{self, RefDecoded, RefKind},
    crypto_ref,
    peersim::{accept_victim_handshake, EnrAddr, Id, KeyGen, PeerSim},
    rlp_ref::RefMessage,
};
use crate::rig::r1::{RigConfig, Stamped, WireRig};
use crate::util::{hx, Rng};
use discv5::enr::k256::ecdsa::VerifyingKey;
use discv5::verif::{HandlerIn, HandlerOut, Request, RequestBody, Response, ResponseBody, WhoAreYouRef};
use discv5::{Enr, NodeAddress, NodeContact, RequestError, RequestId};
use serde_json::{json, Value};
use std::collections::HashMap;
use std::net::SocketAddr;
use std::num::NonZeroU16;
use std::time::Duration;

/// What a datagram emitted by the victim is, as far as the monitor can tell.
#[derive(Clone, Debug, PartialEq)]
pub enum OutClass {
    WhoAreYou { request_nonce: [u8; 12], id_nonce: [u8; 16], enr_seq: u64, challenge_data: Vec<u8> },
    /// A handshake packet; `gen` indexes the peer's monitor key list, `msg` is the embedded message.
    Handshake { nonce: [u8; 12], gen: Option<usize>, msg: Option<RefMessage>, with_record: bool },
    /// A message packet that decrypts under monitor key generation `gen`.
    Message { nonce: [u8; 12], gen: usize, msg: Option<RefMessage> },
    /// A message packet that decrypts under no known key (a "random" packet).
    Random { nonce: [u8; 12] },
    Unparsable,
}

impl OutClass {
    pub fn tag(&self) -> &'static str {
        match self {
            OutClass::WhoAreYou { .. } => "whoareyou",
            OutClass::Handshake { .. } => "handshake",
            OutClass::Message { .. } => "message",
            OutClass::Random { .. } => "random",
            OutClass::Unparsable => "unparsable",
        }
    }
    pub fn msg(&self) -> Option<&RefMessage> {
        match self {
            OutClass::Handshake { msg, .. } | OutClass::Message { msg, .. } => msg.as_ref(),
            _ => None,
        }
    }
}

/// What the harness injected towards the victim.
#[derive(Clone, Debug, PartialEq)]
pub enum InClass {
    Random { nonce: [u8; 12] },
    Message { gen: usize, msg: RefMessage, nonce: [u8; 12] },
    WhoAreYou { request_nonce: [u8; 12] },
    /// `answers` is the challenge-data of the WHOAREYOU this handshake was built for.
    Handshake { msg: RefMessage, honest: bool, answers: Vec<u8> },
    /// A previously injected datagram injected again (possibly from another address).
    Replay { of: Box<InClass>, same_source: bool },
    /// Anything crafted by an attack script, with a free-form label.
    Crafted(String),
}

#[derive(Clone, Debug)]
pub enum Ev {
    /// Application submitted a request to the handler.
    Submit { id: Vec<u8>, peer: usize, with_enr: bool, kind: u8 },
    /// Application answered a who-are-you query.
    AnswerWru { id: Id, addr: SocketAddr, with_enr: bool },
    /// Application sent a response to a request of a peer.
    AppResponse { peer_addr: SocketAddr, id: Vec<u8> },
    /// The handler emitted an event.
    Out(HandlerOut),
    /// The victim put a datagram on the wire.
    Sent { to: SocketAddr, peer: Option<usize>, class: OutClass, bytes: Vec<u8> },
    /// The network delivered a datagram to the victim.
    Injected { from: SocketAddr, peer: Option<usize>, class: InClass, bytes: Vec<u8> },
    /// The network lost a datagram. `to_victim` tells the direction.
    Dropped { to_victim: bool, peer: Option<usize> },
    /// Filter exemption map at a quiescent point.
    Exemptions(HashMap<SocketAddr, usize>),
    /// A peer forgot all its session keys.
    PeerLostSession { peer: usize },
    Note(String),
}

#[derive(Clone, Debug)]
pub struct TraceEv {
    pub at: Duration,
    pub ev: Ev,
}

#[derive(Clone, Debug)]
pub struct Behaviour {
    /// Answers requests of the victim.
    pub respond: bool,
    /// Answers undecryptable packets with WHOAREYOU.
    pub challenge_unknown: bool,
    /// Answers the victim's WHOAREYOU with a handshake.
    pub answer_whoareyou: bool,
    /// Number of packets used for a NODES answer, and the `total` it claims.
    pub nodes_packets: u64,
    pub nodes_total: Option<u64>,
    /// A `total` of its own for every packet of the answer (one packet per element); packets
    /// beyond the list claim `nodes_total`.
    pub nodes_totals: Option<Vec<u64>>,
    /// enr-seq the peer claims to know of the victim in its WHOAREYOU (0 = none).
    pub known_victim_seq: u64,
    /// Attach own record to handshakes even when the victim's WHOAREYOU says it is known.
    pub always_attach_record: bool,
    /// Record bytes to return for distance 0 instead of the peer's own record.
    pub nodes_record_override: Option<Vec<u8>>,
    /// Records to return for distance 0 (in this order) instead of the peer's one own record.
    pub nodes_records_list: Option<Vec<Vec<u8>>>,
    /// Never answers FINDNODE [0] (the request a node sends to learn this peer's record).
    pub ignore_enr_requests: bool,
    /// Answers FINDNODE [0] only after this long (a peer that is slow to hand out its record).
    pub enr_answer_delay: Option<Duration>,
}

impl Default for Behaviour {
    fn default() -> Self {
        Behaviour {
            respond: true,
            challenge_unknown: true,
            answer_whoareyou: true,
            nodes_packets: 1,
            nodes_total: None,
            nodes_totals: None,
            known_victim_seq: 0,
            always_attach_record: false,
            nodes_record_override: None,
            nodes_records_list: None,
            ignore_enr_requests: false,
            enr_answer_delay: None,
        }
    }
}

pub struct Peer {
    pub sim: PeerSim,
    pub behaviour: Behaviour,
    /// Packets of ours that may be answered by a WHOAREYOU: nonce -> message to (re)send.
    pub pending_out: HashMap<[u8; 12], RefMessage>,
    /// Monitor-side superset of key generations (derived from everything seen on the wire).
    pub mon_keys: Vec<KeyGen>,
    /// challenge-data of every WHOAREYOU this peer ever sent.
    pub all_challenges: Vec<Vec<u8>>,
    pub next_req: u64,
    /// ids of requests this peer sent to the victim, with the time of sending
    pub requests: Vec<(Vec<u8>, Duration)>,
    /// responses of the victim this peer decrypted: request id
    pub responses_seen: Vec<Vec<u8>>,
    /// requests of the victim this peer received (id, kind)
    pub requests_seen: Vec<(Vec<u8>, u8)>,
}

#[derive(Clone, Debug)]
pub struct Faults {
    /// per-mille probabilities
    pub drop: u64,
    pub dup: u64,
    pub delay: u64,
}

impl Faults {
    pub fn none() -> Self {
        Faults { drop: 0, dup: 0, delay: 0 }
    }
}

struct Flight {
    due: Duration,
    to_victim: bool,
    peer: usize,
    addr: SocketAddr,
    bytes: Vec<u8>,
    class: Option<InClass>,
}

pub struct Engine {
    /// (flow info, scope id) the operating system reports with IPv6 source addresses (link-local
    /// peers): attached to every IPv6 source at the moment of injection, nowhere else
    pub inject_scope: Option<(u32, u32)>,
    pub rig: WireRig,
    pub peers: Vec<Peer>,
    pub trace: Vec<TraceEv>,
    pub rng: Rng,
    pub faults: Faults,
    flights: Vec<Flight>,
    pending_wru: Vec<(Duration, WhoAreYouRef)>,
    /// How the application answers who-are-you queries: delay choices (None = never).
    pub wru_delays: Vec<Option<Duration>>,
    /// Does the application know the peers' records when asked?
    pub app_knows_peers: bool,
    /// Does the application answer requests coming from peers?
    pub app_responds: bool,
    pub victim_pub: VerifyingKey,
    pub victim_id: Id,
    next_req: u64,
    pub activity: u64,
}

impl Engine {
    pub async fn new(seed: u64, cfg: RigConfig, npeers: usize, peer_addrs: Option<Vec<SocketAddr>>) -> Engine {
        let mut rng = Rng::new(seed);
        let rig = WireRig::start(&mut rng, cfg).await;
        let mut peers = Vec::new();
        for i in 0..npeers {
            let addr = peer_addrs
                .as_ref()
                .map(|v| v[i])
                .unwrap_or_else(|| crate::rig::r1::v4(10, 0, 1 + (i / 200) as u8, 2 + (i % 200) as u8, 9000 + i as u16));
            let seq = 1 + rng.below(5);
            let sim = PeerSim::new(&mut rng, addr, EnrAddr::Socket(addr), seq);
            peers.push(Peer {
                sim,
                behaviour: Behaviour::default(),
                pending_out: HashMap::new(),
                mon_keys: Vec::new(),
                all_challenges: Vec::new(),
                next_req: 1,
                requests: Vec::new(),
                responses_seen: Vec::new(),
                requests_seen: Vec::new(),
            });
        }
        let victim_pub = rig.victim.public();
        let victim_id = rig.victim.id;
        Engine {
            inject_scope: None,
            rig,
            peers,
            trace: Vec::new(),
            rng,
            faults: Faults::none(),
            flights: Vec::new(),
            pending_wru: Vec::new(),
            wru_delays: vec![Some(Duration::ZERO)],
            app_knows_peers: false,
            app_responds: true,
            victim_pub,
            victim_id,
            next_req: 1,
            activity: 0,
        }
    }

    fn scoped(&self, a: SocketAddr) -> SocketAddr {
        match (a, self.inject_scope) {
            (SocketAddr::V6(v6), Some((flow, scope))) => SocketAddr::V6(std::net::SocketAddrV6::new(*v6.ip(), v6.port(), flow, scope)),
            _ => a,
        }
    }

    pub fn now(&self) -> Duration {
        self.rig.now()
    }

    pub fn log(&mut self, ev: Ev) {
        let at = self.now();
        self.trace.push(TraceEv { at, ev });
    }

    pub fn peer_enr(&self, i: usize) -> Enr {
        self.peers[i].sim.ident.enr.clone()
    }

    fn fresh_id(&mut self) -> Vec<u8> {
        let id = self.next_req;
        self.next_req += 1;
        // unique, 8 bytes, never colliding with peers' ids (which start with 0xEE)
        let mut v = vec![0xA0u8];
        v.extend_from_slice(&id.to_be_bytes()[1..]);
        v
    }

    /* -------------------------- application side -------------------------- */

    /// Submit a request to peer `i`. kind: 1 ping, 3 findnode, 5 talk.
    pub fn submit(&mut self, i: usize, kind: u8, with_enr: bool) -> Vec<u8> {
        let id = self.fresh_id();
        let body = match kind {
            1 => RequestBody::Ping { enr_seq: 1 },
            3 => RequestBody::FindNode { distances: vec![0, 255, 256] },
            _ => RequestBody::Talk { protocol: b"verif".to_vec(), request: id.clone() },
        };
        let p = &self.peers[i].sim.ident;
        let contact = if with_enr {
            NodeContact::try_from_enr(p.enr.clone(), discv5::IpMode::DualStack).expect("peer record contactable")
        } else {
            NodeContact::new(discv5::enr::CombinedPublicKey::Secp256k1(p.public()), p.addr, None)
        };
        self.rig.submit(HandlerIn::Request(contact, Box::new(Request { id: RequestId(id.clone()), body })));
        self.log(Ev::Submit { id: id.clone(), peer: i, with_enr, kind });
        self.activity += 1;
        id
    }

    /* ----------------------------- peer side ----------------------------- */

    /// Peer `i` sends a request to the victim (random packet if it has no session).
    pub fn peer_request(&mut self, i: usize, kind: u8) -> Vec<u8> {
        let vid = self.victim_id;
        let now = self.now();
        let p = &mut self.peers[i];
        let mut id = vec![0xEEu8, i as u8];
        id.extend_from_slice(&(p.next_req as u32).to_be_bytes());
        p.next_req += 1;
        let msg = match kind {
            1 => RefMessage::Ping { id: id.clone(), enr_seq: p.sim.ident.enr.seq() },
            3 => RefMessage::FindNode { id: id.clone(), distances: vec![0] },
            _ => RefMessage::TalkReq { id: id.clone(), protocol: b"verif".to_vec(), request: vec![1, 2, 3] },
        };
        p.requests.push((id.clone(), now));
        let (bytes, class) = if p.sim.latest(&vid).is_some() {
            let gen = p.sim.keys[&vid].len() - 1;
            let (b, nonce) = p.sim.message(&vid, &msg, None);
            p.pending_out.insert(nonce, msg.clone());
            (b, InClass::Message { gen, msg, nonce })
        } else {
            let (b, nonce) = p.sim.random_packet(&vid);
            p.pending_out.insert(nonce, msg);
            (b, InClass::Random { nonce })
        };
        let addr = p.sim.addr();
        self.send_to_victim(i, addr, bytes, class);
        self.activity += 1;
        id
    }

    /// The peer forgets every session key (as after a restart).
    pub fn peer_lose_session(&mut self, i: usize) {
        let vid = self.victim_id;
        self.peers[i].sim.keys.remove(&vid);
        self.log(Ev::PeerLostSession { peer: i });
    }

    /// Queue a datagram for the victim through the fault injector.
    pub fn send_to_victim(&mut self, peer: usize, from: SocketAddr, bytes: Vec<u8>, class: InClass) {
        self.route(true, peer, from, bytes, Some(class));
    }

    /// Inject right now, bypassing the fault injector (attack scripts).
    pub fn inject_now(&mut self, peer: Option<usize>, from: SocketAddr, bytes: Vec<u8>, class: InClass) {
        self.rig.inject(self.scoped(from), bytes.clone());
        self.log(Ev::Injected { from, peer, class, bytes });
    }

    fn route(&mut self, to_victim: bool, peer: usize, addr: SocketAddr, bytes: Vec<u8>, class: Option<InClass>) {
        let now = self.now();
        let f = self.faults.clone();
        let roll = self.rng.below(1000);
        if roll < f.drop {
            self.log(Ev::Dropped { to_victim, peer: Some(peer) });
            return;
        }
        let timeout = self.rig.cfg_request_timeout;
        let copies = if self.rng.below(1000) < f.dup { 2 } else { 1 };
        for _ in 0..copies {
            let delay = if self.rng.below(1000) < f.delay {
                match self.rng.below(5) {
                    0 => Duration::from_millis(1),
                    1 => timeout / 2,
                    2 => timeout + timeout / 5,
                    3 => timeout * 5 / 2,
                    _ => Duration::from_millis(self.rng.below(20)),
                }
            } else {
                Duration::ZERO
            };
            self.flights.push(Flight { due: now + delay, to_victim, peer, addr, bytes: bytes.clone(), class: class.clone() });
        }
    }

    /// Observation only: what is this datagram of the victim? Updates monitor keys, never
    /// protocol state.
    fn classify(&mut self, peer: usize, bytes: &[u8]) -> OutClass {
        let vid = self.victim_id;
        let vpub = self.victim_pub;
        let p = &mut self.peers[peer];
        let Ok(dec) = p.sim.parse(bytes) else { return OutClass::Unparsable };
        match &dec.kind {
            RefKind::WhoAreYou { id_nonce, enr_seq } => OutClass::WhoAreYou {
                request_nonce: dec.nonce,
                id_nonce: *id_nonce,
                enr_seq: *enr_seq,
                challenge_data: dec.aad.clone(),
            },
            RefKind::Handshake { src_id, record, .. } => {
                if src_id != &vid {
                    return OutClass::Unparsable;
                }
                let mut found = None;
                for cd in p.all_challenges.iter().rev() {
                    if let Ok((k, pt)) = accept_victim_handshake(&p.sim.ident, &vid, &vpub, cd, &dec) {
                        let gen = match p.mon_keys.iter().position(|m| *m == k) {
                            Some(g) => g,
                            None => {
                                p.mon_keys.push(k);
                                p.mon_keys.len() - 1
                            }
                        };
                        found = Some((gen, RefMessage::decode(&pt).ok()));
                        break;
                    }
                }
                OutClass::Handshake {
                    nonce: dec.nonce,
                    gen: found.as_ref().map(|f| f.0),
                    msg: found.and_then(|f| f.1),
                    with_record: record.is_some(),
                }
            }
            RefKind::Message { src_id } => {
                if src_id != &vid {
                    return OutClass::Unparsable;
                }
                for (g, k) in p.mon_keys.iter().enumerate().rev() {
                    if let Some(pt) = crypto_ref::gcm_decrypt(&k.recv, &dec.nonce, &dec.message, &dec.aad) {
                        return OutClass::Message { nonce: dec.nonce, gen: g, msg: RefMessage::decode(&pt).ok() };
                    }
                }
                OutClass::Random { nonce: dec.nonce }
            }
        }
    }

    /// The peer's protocol reaction to a delivered datagram of the victim.
    fn peer_react(&mut self, i: usize, bytes: &[u8]) {
        let vid = self.victim_id;
        let vpub = self.victim_pub;
        let vaddr = self.rig.victim.addr;
        let addr = self.peers[i].sim.addr();
        let Ok(dec) = self.peers[i].sim.parse(bytes) else { return };
        match dec.kind.clone() {
            RefKind::WhoAreYou { enr_seq, .. } => {
                let p = &mut self.peers[i];
                if !p.behaviour.answer_whoareyou {
                    return;
                }
                let Some(msg) = p.pending_out.remove(&dec.nonce) else { return };
                let with_record = p.behaviour.always_attach_record || enr_seq < p.sim.ident.enr.seq();
                let out = p.sim.honest_handshake(&vid, &vpub, &dec.aad, with_record, &msg);
                if let Some(k) = &out.keys {
                    if !p.mon_keys.contains(k) {
                        p.mon_keys.push(k.clone());
                    }
                }
                // the handshake packet itself may be challenged again
                p.pending_out.insert(out.nonce, msg.clone());
                self.send_to_victim(i, addr, out.datagram, InClass::Handshake { msg, honest: true, answers: dec.aad.clone() });
            }
            RefKind::Handshake { .. } => {
                let res = self.peers[i].sim.accept_handshake(&vid, &vpub, &dec);
                if let Ok((_gen, pt)) = res {
                    if let Ok(m) = RefMessage::decode(&pt) {
                        self.peer_handle_message(i, m, vaddr);
                    }
                }
            }
            RefKind::Message { .. } => {
                let dec_res = self.peers[i].sim.decrypt(&vid, &dec);
                match dec_res {
                    Some((_g, pt)) => {
                        if let Ok(m) = RefMessage::decode(&pt) {
                            self.peer_handle_message(i, m, vaddr);
                        }
                    }
                    None => {
                        let p = &mut self.peers[i];
                        if p.behaviour.challenge_unknown {
                            let seq = p.behaviour.known_victim_seq;
                            let w = p.sim.whoareyou(&vid, dec.nonce, seq);
                            let cd = p.sim.sent_challenges[&dec.nonce].clone();
                            p.all_challenges.push(cd);
                            self.send_to_victim(i, addr, w, InClass::WhoAreYou { request_nonce: dec.nonce });
                        }
                    }
                }
            }
        }
    }

    fn peer_handle_message(&mut self, i: usize, m: RefMessage, vaddr: SocketAddr) {
        let vid = self.victim_id;
        let addr = self.peers[i].sim.addr();
        if !m.is_request() {
            let p = &mut self.peers[i];
            p.responses_seen.push(m.id().to_vec());
            return;
        }
        self.peers[i].requests_seen.push((m.id().to_vec(), m.type_byte()));
        if !self.peers[i].behaviour.respond {
            return;
        }
        if self.peers[i].behaviour.ignore_enr_requests && matches!(&m, RefMessage::FindNode { distances, .. } if distances == &vec![0u64]) {
            return;
        }
        let id = m.id().to_vec();
        let replies: Vec<RefMessage> = match &m {
            RefMessage::Ping { .. } => vec![RefMessage::Pong {
                id,
                enr_seq: self.peers[i].sim.ident.enr.seq(),
                ip: crate::peer::rlp_ref::ip_bytes(&vaddr.ip()),
                port: vaddr.port(),
            }],
            RefMessage::FindNode { distances, .. } => {
                let varying = self.peers[i].behaviour.nodes_totals.clone();
                let n = varying.as_ref().map(|v| v.len() as u64).unwrap_or(self.peers[i].behaviour.nodes_packets).max(1);
                let total = self.peers[i].behaviour.nodes_total.unwrap_or(n);
                let own = self.peers[i].behaviour.nodes_record_override.clone().unwrap_or_else(|| self.peers[i].sim.ident.record_bytes());
                (0..n)
                    .map(|k| RefMessage::Nodes {
                        id: id.clone(),
                        total: varying.as_ref().and_then(|v| v.get(k as usize)).copied().unwrap_or(total),
                        records: if k == 0 && distances.contains(&0) { self.peers[i].behaviour.nodes_records_list.clone().unwrap_or_else(|| vec![own.clone()]) } else { vec![] },
                    })
                    .collect()
            }
            RefMessage::TalkReq { request, .. } => vec![RefMessage::TalkResp { id, response: request.clone() }],
            _ => vec![],
        };
        let slow = match (&m, self.peers[i].behaviour.enr_answer_delay) {
            (RefMessage::FindNode { distances, .. }, Some(d)) if distances == &vec![0u64] => Some(d),
            _ => None,
        };
        for r in replies {
            if self.peers[i].sim.latest(&vid).is_none() {
                return;
            }
            let gen = self.peers[i].sim.keys[&vid].len() - 1;
            let (b, nonce) = self.peers[i].sim.message(&vid, &r, None);
            let before = self.flights.len();
            self.send_to_victim(i, addr, b, InClass::Message { gen, msg: r, nonce });
            if let Some(d) = slow {
                for f in self.flights[before..].iter_mut() {
                    f.due += d;
                }
            }
        }
    }

    /* ------------------------------ stepping ------------------------------ */

    fn peer_at(&self, addr: &SocketAddr, bytes: &[u8]) -> Option<usize> {
        // several identities may share an address: the one whose id unmasks the header
        let mut at_addr = None;
        for (i, p) in self.peers.iter().enumerate() {
            if p.sim.addr() == *addr {
                at_addr.get_or_insert(i);
                if codec_ref::decode(&p.sim.ident.id, bytes).is_ok() {
                    return Some(i);
                }
            }
        }
        at_addr
    }

    /// Deliver everything due, reach a quiescent point, collect and react. Returns the number of
    /// things that happened (0 = nothing to do right now).
    pub async fn step(&mut self) -> usize {
        let now = self.now();
        let mut happened = 0;
        // At most ONE input reaches the victim per quiescent point (a who-are-you answer or one
        // datagram), so that every effect is attributable to its cause. Datagrams for peers are
        // all processed.
        let mut fed = false;
        if let Some(i) = self.pending_wru.iter().position(|(d, _)| *d <= now) {
            let (_, wru) = self.pending_wru.remove(i);
            let na: NodeAddress = wru.0.clone();
            let enr = if self.app_knows_peers {
                self.peers.iter().find(|p| p.sim.ident.id == na.node_id.raw()).map(|p| p.sim.ident.enr.clone())
            } else {
                None
            };
            self.log(Ev::AnswerWru { id: na.node_id.raw(), addr: na.socket_addr, with_enr: enr.is_some() });
            self.rig.submit(HandlerIn::WhoAreYou(wru, enr));
            happened += 1;
            fed = true;
        }
        let mut k = 0;
        while k < self.flights.len() {
            if self.flights[k].due <= now && (!self.flights[k].to_victim || !fed) {
                let f = self.flights.remove(k);
                happened += 1;
                if f.to_victim {
                    fed = true;
                    self.rig.inject(self.scoped(f.addr), f.bytes.clone());
                    self.log(Ev::Injected { from: f.addr, peer: Some(f.peer), class: f.class.unwrap_or(InClass::Crafted("?".into())), bytes: f.bytes });
                } else {
                    self.peer_react(f.peer, &f.bytes);
                }
            } else {
                k += 1;
            }
        }
        self.rig.settle().await;
        happened += self.collect();
        let ex = self.rig.exemptions();
        self.log(Ev::Exemptions(ex));
        self.activity += happened as u64;
        happened
    }

    /// Takes the handler's outputs since the last call, logs them, routes datagrams to peers and
    /// lets the scripted application react.
    pub fn collect(&mut self) -> usize {
        let mut happened = 0;
        let sent: Vec<Stamped<(SocketAddr, Vec<u8>)>> = self.rig.take_sent();
        let events: Vec<Stamped<HandlerOut>> = self.rig.take_events();
        // merge by time so that the trace is in causal order
        let mut items: Vec<(Duration, u8, usize)> = Vec::new();
        for (i, s) in sent.iter().enumerate() {
            items.push((s.at, 1, i));
        }
        for (i, e) in events.iter().enumerate() {
            items.push((e.at, 0, i));
        }
        items.sort();
        for (at, kind, idx) in items {
            happened += 1;
            if kind == 1 {
                let (to, bytes) = sent[idx].v.clone();
                let peer = self.peer_at(&to, &bytes);
                let class = match peer {
                    Some(p) => self.classify(p, &bytes),
                    None => OutClass::Unparsable,
                };
                self.trace.push(TraceEv { at, ev: Ev::Sent { to, peer, class, bytes: bytes.clone() } });
                if let Some(p) = peer {
                    self.route(false, p, to, bytes, None);
                }
            } else {
                let ev = events[idx].v.clone();
                self.trace.push(TraceEv { at, ev: Ev::Out(ev.clone()) });
                self.app_react(ev);
            }
        }
        happened
    }

    fn app_react(&mut self, ev: HandlerOut) {
        match ev {
            HandlerOut::WhoAreYou(wru) => {
                let choice = self.wru_delays[self.rng.usize(self.wru_delays.len())];
                if let Some(d) = choice {
                    let due = self.now() + d;
                    self.pending_wru.push((due, wru));
                }
            }
            HandlerOut::Request(na, req) => {
                if !self.app_responds {
                    return;
                }
                let body = match &req.body {
                    RequestBody::Ping { .. } => ResponseBody::Pong {
                        enr_seq: self.rig.victim.enr.seq(),
                        ip: na.socket_addr.ip(),
                        port: NonZeroU16::new(na.socket_addr.port().max(1)).unwrap(),
                    },
                    RequestBody::FindNode { .. } => ResponseBody::Nodes { total: 1, nodes: vec![self.rig.victim.enr.clone()] },
                    RequestBody::Talk { request, .. } => ResponseBody::Talk { response: request.clone() },
                };
                self.log(Ev::AppResponse { peer_addr: na.socket_addr, id: req.id.0.clone() });
                self.rig.submit(HandlerIn::Response(na, Box::new(Response { id: req.id.clone(), body })));
            }
            _ => {}
        }
    }

    /// Keep stepping (advancing virtual time when idle) until `deadline`.
    pub async fn run_until(&mut self, deadline: Duration) {
        let quantum = (self.rig.cfg_request_timeout / 8).max(Duration::from_millis(2));
        while self.now() < deadline {
            let n = self.step().await;
            if n == 0 {
                let now = self.now();
                let mut next = deadline.min(now + quantum);
                for f in &self.flights {
                    next = next.min(f.due.max(now));
                }
                for (d, _) in &self.pending_wru {
                    next = next.min((*d).max(now));
                }
                if next > now + Duration::from_millis(1) {
                    self.rig.sleep(next - now - Duration::from_millis(1)).await;
                }
            }
        }
    }

    pub async fn run_for(&mut self, d: Duration) {
        let deadline = self.now() + d;
        self.run_until(deadline).await;
    }

    /// Step until a whole request-timeout passes without any activity.
    pub async fn drain(&mut self) {
        for _ in 0..400 {
            let n = self.step().await;
            if n == 0 && self.flights.is_empty() && self.pending_wru.is_empty() {
                break;
            }
            if n == 0 {
                self.rig.sleep(Duration::from_millis(2)).await;
            }
        }
    }

    /// Quiescence rule of C04: after the last injected event, advance virtual time one request
    /// timeout at a time until the handler has emitted nothing for `retries + 2` consecutive
    /// periods (bounded by 20 * (retries + 2) periods).
    pub async fn quiesce(&mut self) {
        let t = self.rig.cfg_request_timeout;
        let need = self.rig.cfg_request_retries as u32 + 2;
        let mut quiet = 0;
        for _ in 0..(20 * need) {
            let before = self.trace.len();
            let deadline = self.now() + t;
            self.run_until(deadline).await;
            let busy = self.trace[before..].iter().any(|e| !matches!(e.ev, Ev::Exemptions(_)));
            if busy {
                quiet = 0;
            } else {
                quiet += 1;
                if quiet >= need {
                    break;
                }
            }
        }
    }

    pub fn dump_trace(&self, last: usize) -> Value {
        let start = self.trace.len().saturating_sub(last);
        Value::Array(
            self.trace[start..]
                .iter()
                .filter(|e| !matches!(e.ev, Ev::Exemptions(_)))
                .map(|e| json!({"t_ms": e.at.as_millis() as u64, "ev": show_ev(&e.ev)}))
                .collect(),
        )
    }
}

pub fn show_ev(ev: &Ev) -> String {
    match ev {
        Ev::Submit { id, peer, with_enr, kind } => format!("app submits request {} kind {kind} to peer {peer} (record known: {with_enr})", hx(id)),
        Ev::AnswerWru { id, addr, with_enr } => format!("app answers who-are-you for {}@{addr} with_record={with_enr}", hx(&id[..4])),
        Ev::AppResponse { peer_addr, id } => format!("app responds to {peer_addr} request {}", hx(id)),
        Ev::Out(o) => format!("handler: {}", show_out(o)),
        Ev::Sent { to, peer, class, bytes } => format!("wire out to {to} (peer {peer:?}, {} bytes): {}", bytes.len(), show_class(class)),
        Ev::Injected { from, peer, class, bytes } => format!("wire in from {from} (peer {peer:?}, {} bytes): {}", bytes.len(), show_in(class)),
        Ev::Dropped { to_victim, peer } => format!("network dropped a datagram (to_victim={to_victim}, peer {peer:?})"),
        Ev::Exemptions(m) => format!("exemptions {m:?}"),
        Ev::PeerLostSession { peer } => format!("peer {peer} lost its session"),
        Ev::Note(s) => s.clone(),
    }
}

pub fn show_class(c: &OutClass) -> String {
    match c {
        OutClass::WhoAreYou { request_nonce, enr_seq, .. } => format!("WHOAREYOU echoing {} enr_seq {enr_seq}", hx(&request_nonce[..4])),
        OutClass::Handshake { gen, msg, with_record, .. } => format!("HANDSHAKE gen {gen:?} record={with_record} msg {}", msg.as_ref().map(show_msg).unwrap_or_default()),
        OutClass::Message { gen, msg, nonce } => format!("MESSAGE gen {gen} nonce {} {}", hx(&nonce[..4]), msg.as_ref().map(show_msg).unwrap_or_default()),
        OutClass::Random { nonce } => format!("RANDOM nonce {}", hx(&nonce[..4])),
        OutClass::Unparsable => "unparsable".into(),
    }
}

pub fn show_in(c: &InClass) -> String {
    match c {
        InClass::Random { nonce } => format!("RANDOM nonce {}", hx(&nonce[..4])),
        InClass::Message { gen, msg, .. } => format!("MESSAGE gen {gen} {}", show_msg(msg)),
        InClass::WhoAreYou { request_nonce } => format!("WHOAREYOU echoing {}", hx(&request_nonce[..4])),
        InClass::Handshake { msg, honest, .. } => format!("HANDSHAKE honest={honest} {}", show_msg(msg)),
        InClass::Replay { of, same_source } => format!("REPLAY (same source: {same_source}) of {}", show_in(of)),
        InClass::Crafted(s) => format!("CRAFTED {s}"),
    }
}

pub fn show_msg(m: &RefMessage) -> String {
    let name = ["?", "PING", "PONG", "FINDNODE", "NODES", "TALKREQ", "TALKRESP"][m.type_byte() as usize];
    format!("{name}#{}", hx(m.id()))
}

pub fn show_out(o: &HandlerOut) -> String {
    match o {
        HandlerOut::Established(enr, addr, dir) => format!("Established({} seq {}, {addr}, {dir:?})", hx(&enr.node_id().raw()[..4]), enr.seq()),
        HandlerOut::Request(na, r) => format!("Request(from {}@{}, #{})", hx(&na.node_id.raw()[..4]), na.socket_addr, hx(&r.id.0)),
        HandlerOut::Response(na, r) => format!("Response(from {}@{}, #{} {})", hx(&na.node_id.raw()[..4]), na.socket_addr, hx(&r.id.0), match &r.body { ResponseBody::Nodes { total, nodes } => format!("NODES total {total} n {}", nodes.len()), ResponseBody::Pong { .. } => "PONG".into(), ResponseBody::Talk { .. } => "TALKRESP".into() }),
        HandlerOut::WhoAreYou(w) => format!("WhoAreYou?({}@{})", hx(&w.0.node_id.raw()[..4]), w.0.socket_addr),
        HandlerOut::RequestFailed(id, e) => format!("RequestFailed(#{}, {e:?})", hx(&id.0)),
        HandlerOut::UnverifiableEnr { node_id, socket, .. } => format!("UnverifiableEnr({}@{socket})", hx(&node_id.raw()[..4])),
        HandlerOut::UnrecognizedFrame(f) => format!("UnrecognizedFrame({} bytes from {})", f.packet.len(), f.src_address),
        HandlerOut::ExpiredSessions(v) => format!("ExpiredSessions({})", v.len()),
    }
}

pub fn is_timeout(e: &RequestError) -> bool {
    matches!(e, RequestError::Timeout)
}
